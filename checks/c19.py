"""C19 - a second DM14 requester never disturbs or joins a running transaction.

(a) TLC: Dm14.tla with an intruder (another source address; the client's own address with another pointer) that may
    inject a request whenever a transaction is open at the serving side, once or twice: IntruderNeverServed,
    BusyGoesToSender, Outcome (non-disturbance: an operation succeeds exactly when key / application were willing,
    whatever the other-address intruder does), ServerToldTheRequest.
(b) real objects and a third real stack as intruder: for every transaction shape (read / write x seed/key on/off x
    single-frame / multi-packet data) the intruding DM14 is injected right after EVERY bus frame of the transaction,
    of both kinds, once and twice; validated by TLC against Dm14Trace.tla (the intruding request is never handed to
    the application; an answer to it - if any - is a DM15 'operation failed' to its sender; the running transaction's
    parameter groups, result and completion are those of the reference model).
"""
import common
import gen_dm14
import scen_dm14

SHAPES = [(k, s, n) for k in ("read", "write") for s in (False, True) for n in (3, 20)]


ADDRSETS = [(0xF9, 0xD4, 0xE0), (0x00, 0xD4, 0xE0), (0xF9, 0xD4, 0x00), (0xFD, 0x00, 0x01)]     # client, server, intruder


def scenarios(tier, seed):
    out = []
    for ai, addrs in enumerate(ADDRSETS):
        cl, sv, it = addrs
        third = 0xE1 if 0xE1 not in addrs else 0xE2
        for si, sh in enumerate(SHAPES):
            if ai > 0 and tier == "quick" and (si + ai) % 4:
                continue                                        # boundary addresses: a rotating quarter of the shapes
            base = dict(gen_dm14.intruded(seed + 1, sh), addrs=list(addrs))
            _, sim0 = scen_dm14.run(base)
            nfr = sim0.nframes
            for k in range(nfr):
                for kind in ("other", "self"):
                    if kind == "self" and tier == "quick" and (k % 2 or ai > 0):
                        continue
                    sa = it if kind == "other" else cl
                    sc = dict(base, intruder=[{"after_frame": k, "sa": sa, "ptr": 0x92000004, "cmd": 1}], expect_idle=(kind == "other"))
                    out.append(sc)
                if ai == 0 or tier != "quick":
                    # the same, delivered with zero latency: processed while the sender of frame k is still inside its send call
                    out.append(dict(base, intruder=[{"after_frame": k, "sa": it, "ptr": 0x92000004, "cmd": 1, "reentrant": True}]))
                if tier != "quick" or k % 3 == 0 or ai > 0:
                    out.append(dict(base, intruder=[{"after_frame": k, "sa": it, "ptr": 0x92000003, "cmd": 2},       # same pointer, other requester
                                                    {"after_frame": k + 2, "sa": third, "ptr": 0x92000009, "cmd": 1}]))
    return out


# time-outs a DM14 / transport implementation typically arms (J1939-21 Tr, Th, T1, T2/T3, the DM14 1.25 s rule, round values)
STALE_GRID = [200000, 500000, 750000, 1000000, 1250000, 2000000]


def history_scenarios(tier, seed):
    """a transaction that was served and closed regularly EARLIER must not weaken the protection of a later one: two
    transactions of the same requester, the second placed so that its closing window (operation-completed DM15 sent,
    closing DM14 not yet received) lies X after the completion of the first, for every X of STALE_GRID - whatever the
    first one left behind (a timer, a flag, a remembered requester) is due exactly then; the intruder comes after every
    frame of the second transaction."""
    out = []
    shapes = SHAPES if tier != "quick" else [SHAPES[(seed + i) % len(SHAPES)] for i in (0, 5)]
    for sh in shapes:
        b = gen_dm14.intruded(seed + 1, sh)
        two = dict(b, ops=[dict(b["ops"][0]), dict(b["ops"][0])], addrs=list(ADDRSETS[0]), expect_idle=True,
                   server={"proceed": [True, True], "respond": [dict(b["server"]["respond"][0]), dict(b["server"]["respond"][0])]})
        for x in STALE_GRID:
            two["ops"][0]["gap"] = x
            tr0, sim0 = scen_dm14.run(two)
            done = [e["t"] for e in tr0["ev"] if e["ev"] == "send" and e["node"] == "S" and e["pgn"] == 0xD800 and e["data"][0] == 0
                    and ((e["data"][1] >> 1) & 7) == 4]
            if len(done) != 2:
                continue
            nfr = sim0.nframes
            for off in (400, -400) if tier != "quick" else (400,):
                gap = x - (done[1] - done[0] - x + off)
                if gap < 1000:
                    continue
                sc = common.json.loads(common.json.dumps(two))
                sc["ops"][0]["gap"] = gap
                for k in range(nfr // 2, nfr):
                    out.append(dict(sc, intruder=[{"after_frame": k, "sa": ADDRSETS[0][2], "ptr": 0x92000004, "cmd": 1}]))
    return out


def in_scope(tr):
    """the property speaks about intrusions while a transaction is in progress: from the first DM14 until the serving side
    has received the closing one.  Injection points that fall behind that are ordinary new transactions - dropped."""
    closed = None
    cl = tr["meta"]["scenario"].get("addrs", ADDRSETS[0])[0]
    if len(tr["meta"]["scenario"]["ops"]) > 1:
        # several transactions of the client one after the other (history_scenarios; intruders from other addresses only):
        # in scope = every foreign DM14 reaches the serving side while one of them is open there
        is_open = False
        for e in tr["ev"]:
            if e["ev"] == "pdu" and e["node"] == "S" and e["pgn"] == 0xD900 and len(e["data"]) == 8:
                if e["sa"] == cl:
                    is_open = ((e["data"][1] >> 1) & 7) != 4
                elif not is_open:
                    return False
        return True
    for e in tr["ev"]:
        if e["ev"] == "pdu" and e["node"] == "S" and e["pgn"] == 0xD900 and e["sa"] == cl and len(e["data"]) == 8 and ((e["data"][1] >> 1) & 7) == 4:
            closed = e["t"]
        if e["ev"] == "pdu" and e["node"] == "S" and e["pgn"] == 0xD900 and e["sa"] != cl and closed is not None and e["t"] >= closed:
            return False
        if e["ev"] == "pdu" and e["node"] == "S" and e["pgn"] == 0xD900 and e["sa"] == cl and closed is not None and e["t"] > closed:
            return False
    return True


def nontrivial(tr):
    return any(e["ev"] == "intr" for e in tr["ev"])


def run(chk, replay):
    chk.rule = ("8 transaction shapes x intruding DM14 after every bus frame k x {other source address, client's own address "
                "with another pointer} + double intrusions (same pointer from another requester, then a third requester); "
                "source addresses of client / server / intruder: typical ones and the boundary values 0x00 and 0xFD; "
                "+ two-transaction histories: the second transaction's closing window placed 0.2 / 0.5 / 0.75 / 1 / 1.25 / 2 s "
                "after the completion of the first, intruder after every frame of the second; "
                "non-trivial = an intruding request was actually injected")
    chk.assumptions = ["the intruder is a third real stack sending a well-formed DM14 read/write request 1 us after the k-th bus frame",
                       "for an intruder using the client's own address only not-served / busy-answer are required (the busy reply "
                       "legitimately reaches the running client)"]
    if replay:
        sc = common.json.load(open(replay))["scenario"]
        chk.validate("Dm14Trace.tla", "Dm14Trace.cfg", [scen_dm14.run(sc)[0]], "replay", nontrivial=nontrivial)
        return
    chk.model("MC_Dm14.tla", "MC_Dm14.cfg")
    chk.model("MC_Dm14.tla", "MC_Dm14_nosec.cfg")
    scs = scenarios(chk.tier, chk.seed)
    nbase = len(scs)
    scs += history_scenarios(chk.tier, chk.seed)
    traces = [t for t in (scen_dm14.run(sc)[0] for sc in scs) if in_scope(t)]
    chk.extra["history_scenarios"] = sum(1 for t in traces if len(t["meta"]["scenario"]["ops"]) > 1)
    chk.validate("Dm14Trace.tla", "Dm14Trace.cfg", traces, "main", nontrivial=nontrivial)
    chk.exhaustive = True
    chk.extra["injection_points"] = len(traces)


if __name__ == "__main__":
    common.main(run, "C19")
