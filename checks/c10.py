"""C10 - transport capacity is conserved over any history of good and failed transfers.

(a) TLC: Tp21/Tp22 models with loss at any emission, a peer (an address owned by the environment) that
    clears, aborts or stays silent, refusals: PoolConsistent in EVERY reachable state, RefusalRule,
    InboundNeverTouchesPool, GivesUp, sessions released.
(b) real code: seeded histories of 1..40 transfers per stack (clean / lost frames / peer abort at a random
    point / peer silent = nobody owns the destination), both data link layers; after each history the
    full advertised concurrency is started and must be accepted and delivered.  Every trace is validated
    by TLC (pools, session tables, frames) against Tp21Trace / Tp22Trace.
"""
import random

import common
import gen21
import scen
from gen21 import node, send


def history(dll, seed, nmax):
    rng = random.Random(seed)
    fd = dll == "j1939-22"
    minsz = 61 if fd else 9
    nodes = [node("A", [0x10], rng.choice([1, 1000, 3000]), rng.choice([1, 2, 255])),
             node("B", [0x20], rng.choice([1, 1000, 5000]), rng.choice([1, 3, 255])),
             node("C", [0x30], rng.choice([500, 2000]), 2)]
    owner = {0x10: "A", 0x20: "B", 0x30: "C"}
    sends, inject = [], []
    t = 0
    n = rng.randint(1, nmax)
    for j in range(n):
        sa = rng.choice([0x10, 0x10, 0x20, 0x30])
        kind = rng.random()
        size = rng.choice([minsz, minsz + 1, rng.randint(minsz, minsz + 200)])
        if kind < 0.55:
            da = rng.choice([a for a in owner if a != sa])
            sends.append(send(t, owner[sa], sa, 0xD0 + (j % 16), da, size, salt=j + 1))
        elif kind < 0.7:
            sends.append(send(t, owner[sa], sa, 0xFE, j % 256, size, salt=j + 1))
        else:
            # peer 0x50 does not exist: silent peer; sometimes it "aborts" at a random point
            sends.append(send(t, owner[sa], sa, 0xD0 + (j % 16), 0x50, size, salt=j + 1))
            if rng.random() < 0.6:
                ta = t + rng.choice([1, 500, 5000, 200000, 1249000, 1250500])
                pgn = (0xD0 + (j % 16)) << 8
                if fd:
                    sess = rng.randint(0, 7)
                    data = [15 | (sess << 4), 255, 255, 255, 255, 255, 255, 255, 1, pgn & 255, (pgn >> 8) & 255, 0]
                    cid = (7 << 26) | (0x4D << 16) | (sa << 8) | 0x50
                else:
                    data = [255, 1, 255, 255, 255, pgn & 255, (pgn >> 8) & 255, 0]
                    cid = (7 << 26) | (0xEC << 16) | (sa << 8) | 0x50
                inject.append({"t": ta, "node": owner[sa], "id": cid, "data": data, "fd": fd})
        t += rng.choice([0, 0, 100, 5000, 50000, 400000, 1400000])
    # drops: a few random bus frames (the count of frames of the fault-free run bounds the index)
    t_end = t + 9_000_000
    # full advertised concurrency afterwards
    must = []
    k = len(sends)
    if fd:
        for src, sa, da in (("A", 0x10, 0x20), ("B", 0x20, 0x10)):
            for i in range(8):
                sends.append(send(t_end, src, sa, 0xC0 + i, da, 61 + i, salt=100 + i)); k += 1; must.append(k)
            for i in range(4):
                sends.append(send(t_end, src, sa, 0xFF, i, 70 + i, salt=120 + i)); k += 1; must.append(k)
    else:
        pairs = [("A", 0x10, 0x20), ("A", 0x10, 0x30), ("B", 0x20, 0x10), ("B", 0x20, 0x30), ("C", 0x30, 0x10), ("C", 0x30, 0x20)]
        for i, (src, sa, da) in enumerate(pairs):
            sends.append(send(t_end, src, sa, 0xC0 + i, da, 20 + i, salt=100 + i)); k += 1; must.append(k)
        for i, (src, sa) in enumerate((("A", 0x10), ("B", 0x20), ("C", 0x30))):
            sends.append(send(t_end, src, sa, 0xFE, i, 23 + i, salt=120 + i)); k += 1; must.append(k)
    sc = {"dll": dll, "nodes": nodes, "sends": sends, "inject": inject, "hostile": bool(inject), "seed": seed,
          "drop_until": t_end - 1,
          "dur": 8_000_000, "expect": {"all": False, "idle": True, "must": must, "accept": must, "bus": False}}
    return sc


def with_drops(sc, seed):
    rng = random.Random(seed)
    _, sim0 = scen.run(dict(sc, sends=[s for s in sc["sends"] if s["t"] < sc["sends"][-1]["t"]], inject=[]))
    nfr = max(1, sim0.nframes)
    nd = rng.choice([0, 1, 1, 2, 3])
    drops = sorted(set(rng.randrange(nfr) for _ in range(nd)))
    # what is delivered DURING a phase with several lost frames is not judged here: no listed property promises payload
    # integrity under more than one loss (C06: a single lost frame), and the J1939-21 receiver, which does not check
    # sequence numbers, can indeed glue the packets of the next broadcast to an incomplete one when both a data packet
    # and the next announcement are lost (observation O4).  The transfers of the final phase must arrive intact.
    return dict(sc, drop=drops, expect=dict(sc["expect"], dm=len(drops) < 2))


def nontrivial(tr):
    return any(e["ev"] in ("lost", "ptx") for e in tr["ev"]) or \
        any(e["ev"] == "api" and e.get("ret") is False for e in tr["ev"])


def run(chk, replay):
    chk.rule = ("seeded histories of 1..40 transfers per stack mixing clean transfers, 0..3 lost bus frames, peer abort "
                "at a random point, silent peer, refused calls, on both data link layers; each followed by the full "
                "advertised concurrency (FD: 8 RTS/CTS + 4 BAM per originator in both directions; J1939-21: all "
                "pairs + BAMs) which must be accepted and delivered; non-trivial = a fault, abort or refusal occurred")
    chk.assumptions = ["a peer that aborts or stays silent is modelled as an address no stack owns (frames forged "
                       "from it), so that the peer's own state is consistent with the abort",
                       "model pools scaled to 2+1 (1+1 quick); traces use 8+4"]
    if replay:
        sc = common.json.load(open(replay))["scenario"]
        spec = "Tp21Trace" if sc.get("dll", "j1939-21") == "j1939-21" else "Tp22Trace"
        chk.validate(spec + ".tla", spec + ".cfg", [scen.run(sc)[0]], "replay", nontrivial=nontrivial)
        return
    quick = chk.tier == "quick"
    chk.model("MC_Tp21_c10q.tla" if quick else "MC_Tp21_c10.tla", "MC_Tp21_c10q.cfg" if quick else "MC_Tp21_c10t.cfg", timeout=3000)
    chk.model("MC_Tp22_c10q.tla" if quick else "MC_Tp22_c10.tla", "MC_Tp22_c10q.cfg" if quick else "MC_Tp22_c10.cfg", timeout=3000)
    n = 60 if quick else 400
    for dll, spec in (("j1939-21", "Tp21Trace"), ("j1939-22", "Tp22Trace")):
        scs = [with_drops(history(dll, chk.seed * 100000 + i, 12 if i % 3 else 40), chk.seed + i) for i in range(n)]
        traces = [scen.run(sc)[0] for sc in scs]
        chk.validate(spec + ".tla", spec + ".cfg", traces, "h" + dll[-2:], nontrivial=nontrivial)


if __name__ == "__main__":
    common.main(run, "C10")
