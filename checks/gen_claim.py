"""scenario generators for controller applications (C04, C13, C14, C05)"""
import itertools
import random

FIELDS = ["identity_number", "manufacturer_code", "ecu_instance", "function_instance", "function", "vehicle_system",
          "vehicle_system_instance", "industry_group"]
WIDTH = {"identity_number": 21, "manufacturer_code": 11, "ecu_instance": 3, "function_instance": 5, "function": 8,
         "vehicle_system": 7, "vehicle_system_instance": 4, "industry_group": 3}


def rand_name(rng):
    """NAMEs that differ in arbitrary fields (so that the 64-bit comparison matters)"""
    kw = {}
    for f in rng.sample(FIELDS, rng.randint(1, 3)):
        kw[f] = rng.choice([0, 1, (1 << WIDTH[f]) - 1, 1 << (WIDTH[f] - 1), rng.randrange(1 << WIDTH[f])])
    return kw


def claim_scenario(seed, nca=None, sends=False, requests=False):
    rng = random.Random(seed)
    nca = nca or rng.choice([2, 2, 3, 3, 4])
    veto = rng.random() < 0.6
    # incl. the boundaries of the veto range (127|128, 247|248)
    base = rng.choice([128, 128, 200, 230, 244, 245, 246, 247] if veto else [0, 10, 100, 120, 125, 126, 127, 248])
    style = rng.choice(["equal", "equal", "adjacent", "distinct", "mixed"])
    nodes, ops = [], []
    names = set()
    for i in range(nca):
        if style == "equal":
            pref = base
        elif style == "adjacent":
            pref = base + (i % 2)
        elif style == "distinct":
            pref = base + (3 * i if base < 240 else i)
        else:
            pref = base + rng.choice([0, 0, 1, 2])
        pref = min(pref, 253)
        while True:
            kw = rand_name(rng)
            kw.setdefault("identity_number", 10 + i)
            key = tuple(kw.get(f, 0) for f in FIELDS)       # different NAMEs, as the property states
            if key not in names:
                names.add(key)
                break
        aac = rng.choice([0, 1, 1])
        lat = rng.choice([0, 0, 1, 700, 2500, 5000])
        nodes.append({"name": "ABCD"[i], "lat": lat, "cas": [{"pref": pref, "aac": aac, "name": kw}]})
        # start before / inside / after the other CAs' 250 ms veto window
        t = rng.choice([0, 0, 1000, 100000, 249000, 251000, 400000, 900000])
        delay = rng.choice([0, 0, 1000, 200000, 500000])
        ops.append({"t": t, "node": "ABCD"[i], "op": "start", "ca": 1, "delay": delay})
    # stop() and start() again: inside the claim delay, inside the veto wait, after the CA has become operational
    for o in list(ops):
        if rng.random() < 0.2:
            ts = o["t"] + rng.choice([100, o["delay"] + 100_000, o["delay"] + 400_000])
            ops.append({"t": ts, "node": o["node"], "op": "stop", "ca": 1})
            ops.append({"t": ts + rng.choice([50_000, 100_000, 600_000]), "node": o["node"], "op": "start", "ca": 1,
                        "delay": rng.choice([0, 1000, 300_000])})
    tmax = max(o["t"] + o.get("delay", 0) for o in ops)
    if sends:
        for _ in range(rng.randint(2, 8)):
            n = rng.choice(nodes)["name"]
            t = rng.choice([0, 500, rng.randint(0, tmax + 1_200_000), tmax + 1000, tmax + 260_000])
            k = rng.random()
            if k < 0.4:
                ops.append({"t": t, "node": n, "op": "send_pgn", "ca": 1, "dp": rng.choice([0, 1]), "pf": rng.choice([0xFE, 0xD0, 0xEF, 0xF0]),
                            "ps": rng.randint(0, 255), "prio": rng.randint(0, 7), "data": [rng.randint(0, 255) for _ in range(rng.randint(0, 8))]})
            elif k < 0.6:
                ops.append({"t": t, "node": n, "op": "send_message", "ca": 1, "prio": rng.randint(0, 7),
                            "pgn": rng.choice([0xFECA, 0xEF00, 0xFEFF, 0xD020, (rng.getrandbits(18) & 0x3E0FF) | 0x0100]), "data": [1, 2, 3]})
            else:
                ops.append({"t": t, "node": n, "op": "send_request", "ca": 1, "dp": rng.choice([0, 0, 0, 1]),
                            "pgn": rng.choice([0xEE00, 0xEE00, 0xFECA, 0x1EE00, 0xEEFF, 0xEA00, rng.getrandbits(18)]),
                            "dest": rng.choice([255, 255, 200, 10, rng.randint(0, 255)])})
    dur = 1_000_000 + 800_000 * (nca + 1)
    return {"dll": "j1939-21", "nodes": nodes, "ops": ops, "dur": dur, "seed": seed,
            "expect": {"settled": True}}


def grid2(tier):
    """two CAs: all NAME orders x arbitrary or not x equal/adjacent preferred x immediate/veto range x start offsets
    before/inside/after the veto window x latency 0 / 1 ms"""
    out = []
    offs = [0, 100000, 251000] if tier == "quick" else [0, 1000, 100000, 249000, 251000, 600000]
    for base in (200, 10):
        for p2 in (0, 1):
            for a1, a2 in itertools.product((0, 1), repeat=2):
                for first_low in (True, False):
                    for off in offs:
                        for lat in (0, 1000):
                            n1 = {"identity_number": 5} if first_low else {"identity_number": 9, "function": 3}
                            n2 = {"identity_number": 9, "function": 3} if first_low else {"identity_number": 5}
                            nodes = [{"name": "A", "lat": lat, "cas": [{"pref": base, "aac": a1, "name": n1}]},
                                     {"name": "B", "lat": lat, "cas": [{"pref": base + p2, "aac": a2, "name": n2}]}]
                            ops = [{"t": 0, "node": "A", "op": "start", "ca": 1, "delay": 0},
                                   {"t": off, "node": "B", "op": "start", "ca": 1, "delay": 0}]
                            out.append({"dll": "j1939-21", "nodes": nodes, "ops": ops, "dur": 3_000_000, "expect": {"settled": True}})
    return out


def reactive(tier):
    """a CA loses its address (fixed: cannot-claim from 254; arbitrary: re-claim of the next address) and a peer answers
    that very frame at once with a request (zero latency): the request is processed by the loser while it is still
    inside the send call of that frame.  Also: a stack application that calls into its CA from inside a delivery callback."""
    out = []
    for aac in (0, 1):
        for pref in (0x10, 200):
            for rq in (0xFEDA, 0xEE00, 0xFECA):
                for dest in (255, pref, 254):
                    for bypass in (False, True):
                        a = {"name": "A", "lat": 0, "cas": [{"pref": pref, "aac": aac, "bypass": bypass, "name": {"identity_number": 9, "function": 3}}]}
                        b = {"name": "B", "lat": 0, "cas": [{"pref": 0x55, "aac": 0, "bypass": True, "name": {"identity_number": 5}}],
                             "react": [{"pgn": 0xFEDA, "sa": None, "times": 1, "do": {"op": "send_request", "dp": 0, "pgn": 0xFECA, "dest": 255}}]}
                        ops = [] if bypass else [{"t": 0, "node": "A", "op": "start", "ca": 1, "delay": 0}]
                        # a lower NAME claims A's address at 1.0 s; the peer (address 0x21) answers A's reaction with a request
                        ops.append({"t": 1_000_000, "node": "A", "op": "inject", "id": (6 << 26) | (0xEE << 16) | (0xFF << 8) | pref, "data": [0] * 8})
                        # later an ordinary broadcast from A's side of the bus, answered by B's application from inside its callback
                        ops.append({"t": 2_000_000, "node": "B", "op": "inject", "id": (6 << 26) | (0xFE << 16) | (0xDA << 8) | 0x21, "data": [1, 2, 3]})
                        req = {"node": "A", "id": (6 << 26) | (0xEA << 16) | (dest << 8) | 0x21, "data": [rq & 255, (rq >> 8) & 255, rq >> 16]}
                        out.append({"dll": "j1939-21", "nodes": [a, b], "ops": ops, "dur": 3_000_000, "expect": {"settled": False},
                                    "bus_react": [{"pf": 0xEE, "sa": None, "times": 2, "inject": req}]})
    return out


ORDER = ["identity_number", "manufacturer_code", "ecu_instance", "function_instance", "function", "vehicle_system",
         "vehicle_system_instance", "industry_group"]          # least significant field first


def bitwalk(tier):
    """two CAs whose NAMEs (built from FIELDS, as applications do) differ at one bit j of one field: that field
    = 2^j against that field = 2^j - 1 with all lower fields at their maximum - the order of the two 64-bit values is
    decided by exactly that bit.  Every bit of every field; the received claim is parsed from its 8 bytes."""
    out = []
    for fi, f in enumerate(ORDER):
        for j in range(WIDTH[f]):
            hi = {f: 1 << j}
            lo = {f: (1 << j) - 1}
            for g in ORDER[:fi]:
                lo[g] = (1 << WIDTH[g]) - 1
            if lo == {f: 0} and j == 0 and fi == 0:
                lo = {f: 0}
            swaps = (False, True) if tier != "quick" else ((j + fi) % 2 == 0,)
            for swap in swaps:
                n1, n2 = (hi, lo) if not swap else (lo, hi)
                nodes = [{"name": "A", "lat": 1000, "cas": [{"pref": 130, "aac": 0, "name": dict(n1)}]},
                         {"name": "B", "lat": 1000, "cas": [{"pref": 130, "aac": 0, "name": dict(n2)}]}]
                for nd in nodes:
                    nd["cas"][0]["name"].setdefault("identity_number", 0)
                ops = [{"t": 0, "node": "A", "op": "start", "ca": 1, "delay": 0},
                       {"t": 500, "node": "B", "op": "start", "ca": 1, "delay": 0}]      # both claims cross on the bus
                out.append({"dll": "j1939-21", "nodes": nodes, "ops": ops, "dur": 2_500_000, "expect": {"settled": True}})
    return out


# --------------------------------------------------------------------------------------------- C05 / C14
def le8(v):
    return list(v.to_bytes(8, "little"))


def responder_node(rng, name="R", maxcas=3):
    """a stack with 0..maxcas CAs, each driven into a claim state by real claim traffic:
    'none' (never started), 'veto' (waiting for veto when the probe arrives), 'normal', 'bypass',
    'cannot' (fixed CA that lost to a lower NAME), 'moved' (arbitrary CA that lost and re-claimed pref+1)"""
    n = rng.randint(0, maxcas)
    cas, ops, states = [], [], []
    used = set()
    for k in range(1, n + 1):
        st = rng.choice(["none", "veto", "normal", "normal", "bypass", "cannot", "moved", "bypass_lost"])
        while True:
            pref = rng.choice([0x10, 0x11, 0x80, 0x81, 0xC8, 0xF7, rng.randint(0, 253)])
            if not ({pref, pref + 1} & used) and pref + 1 <= 253:
                break
        used |= {pref, pref + 1}
        if st == "veto" and not (127 < pref < 248):
            pref = 200 + 4 * k
            used |= {pref, pref + 1}
        name_kw = {"identity_number": 100 + k, "function": rng.choice([0, 5, 255])}
        ca = {"pref": pref, "aac": 1 if st == "moved" else rng.choice([0, 0, 1]) if st != "cannot" else 0,
              "bypass": st in ("bypass", "bypass_lost"), "name": name_kw}
        cas.append(ca)
        held = None
        if st == "none":
            pass
        elif st == "veto":
            ops.append({"t": 1_900_000, "node": name, "op": "start", "ca": k, "delay": 0})       # probe at 2.0 s: inside the veto wait
        elif st in ("normal", "cannot", "moved"):
            ops.append({"t": 0, "node": name, "op": "start", "ca": k, "delay": 0})
            held = pref
            if st in ("cannot", "moved"):
                # a contender with the all-zero NAME (lower than any) claims the address at 1.0 s
                cid = (6 << 26) | (0xEE << 16) | (0xFF << 8) | pref
                ops.append({"t": 1_000_000, "node": name, "op": "inject", "id": cid, "data": [0] * 8})
                held = None if st == "cannot" else pref + 1
        elif st == "bypass":
            held = pref
        elif st == "bypass_lost":
            # a CA that owns its address without ever having been started loses it to a lower NAME like any other
            cid = (6 << 26) | (0xEE << 16) | (0xFF << 8) | pref
            ops.append({"t": 1_000_000, "node": name, "op": "inject", "id": cid, "data": [0] * 8})
            held = None
        states.append({"st": st, "held": held, "pref": pref})
    return {"name": name, "lat": rng.choice([1, 700, 3000]), "cas": cas}, ops, states


PGNS = [0, 1, 0xFF, 0x100, 0xEA00, 0xEB00, 0xEC00, 0xEE00, 0xEEFF, 0xEF00, 0xF000, 0xFECA, 0xFFFF, 0x10000, 0x1EE00, 0x1FFFF,
        0x20000, 0x2EE00, 0x3FFFF]


def request_scenario(seed):
    rng = random.Random(seed)
    resp, ops, states = responder_node(rng, "R")
    extra = []
    if rng.random() < 0.5:
        resp["lst"] = [{"tag": "i48", "kind": "int", "adr": 0x30}]
    # requester: a CA with an address (bypass) or one that never claimed (only the address-claim PGN may be requested)
    with_addr = rng.random() < 0.75
    qadr = rng.choice([0x55, 0x55, 0x00, 0xFD])        # incl. the boundary addresses 0 (valid, falsy) and 253
    while qadr in {p for st_ in states for p in (st_["pref"], st_["pref"] + 1)}:
        qadr = rng.choice([0x55, 0x56, 0x57])
    q = {"name": "Q", "lat": 900, "cas": [{"pref": qadr, "aac": 0, "bypass": with_addr, "name": {"identity_number": 7}}]}
    helds = [s["held"] for s in states if s["held"] is not None]
    prefs = [s["pref"] for s in states]
    if with_addr and prefs and rng.random() < 0.5:
        # the same addresses are polled early (before / while they are being claimed) and again later
        for j, p in enumerate(prefs):
            ops.append({"t": 100_000 + 3000 * j, "node": "Q", "op": "send_request", "ca": 1, "dp": 0, "pgn": rng.choice([0xFECA, 0xEE00]), "dest": p})
    t = 2_000_000
    for i in range(rng.randint(1, 6)):
        dest = rng.choice(helds + prefs + [255, 255, 254, 0x30, 0x77]) if (helds or prefs) else rng.choice([255, 254, 0x77])
        pgn = rng.choice(PGNS + [rng.getrandbits(18)]) if with_addr else rng.choice([0xEE00, 0xEE00, 0xFECA])
        ops.append({"t": t + 3000 * i, "node": "Q", "op": "send_request", "ca": 1, "dp": rng.choice([0, 0, 1]), "pgn": pgn, "dest": dest})
    return {"dll": "j1939-21", "nodes": [resp, q], "ops": ops, "dur": 3_000_000, "seed": seed, "expect": {"settled": False}}


def frame_scenario(seed, sweep=False):
    """C05: single frames of every class, with every flag combination, to every destination class"""
    rng = random.Random(seed)
    resp, ops, states = responder_node(rng, "R")
    if rng.random() < 0.6:
        resp["lst"] = [{"tag": "i48", "kind": "int", "adr": 0x30}]
        if rng.random() < 0.5:
            resp["lst"].append({"tag": "i0", "kind": "int", "adr": 0})        # address 0 is a valid (falsy) address
    helds = [s["held"] for s in states if s["held"] is not None]
    prefs = [s["pref"] for s in states]
    t = 2_000_000
    dests = list(range(256)) if sweep else [rng.choice(helds + prefs + [255, 254, 0x30, 0, 0x77, rng.randint(0, 255)]) for _ in range(rng.randint(2, 10))]
    pf0 = rng.choice([0xD0, 0x00, 0xEF, 0xC3])
    for i, dest in enumerate(dests):
        kind = rng.random()
        sa = rng.choice([0x21, 0x21, 254, 0x10])
        if sweep or kind < 0.5:
            cid, d = (rng.randint(0, 7) << 26) | ((pf0 if sweep else rng.choice([0xD0, 0x00, 0xEF, 0xC3])) << 16) | (dest << 8) | sa, [rng.randint(0, 255) for _ in range(rng.randint(0, 8))]
        elif kind < 0.65:
            cid, d = (6 << 26) | (rng.choice([0xFE, 0xF0, 0xFF]) << 16) | (dest << 8) | sa, [1, 2, 3, 4, 5, 6, 7, 8]
        elif kind < 0.85:
            p = rng.choice([0xFECA, 0xEE00, 0x1FECA])
            cid, d = (6 << 26) | (0xEA << 16) | (dest << 8) | sa, [p & 255, (p >> 8) & 255, p >> 16]
        else:
            cid, d = (6 << 26) | (0xEE << 16) | (0xFF << 8) | rng.choice(helds + prefs + [0x77]), le8(rng.getrandbits(63) | (1 << 20))
        if rng.random() < 0.3 and (cid >> 16) & 0xFF not in (0xEA, 0xEE):
            cid |= 1 << 24                     # data page 1: PDU1 / PDU2 is decided by the PF byte alone
        o = {"t": t + 2000 * i, "node": "R", "op": "inject", "id": cid, "data": d}
        fl = rng.random()
        if fl < 0.5:
            o["flags"] = {"ext": True, "remote": False, "error": False}
        elif fl < 0.8:
            o["flags"] = {"ext": rng.random() < 0.5, "remote": rng.random() < 0.5, "error": rng.random() < 0.5}
        ops.append(o)
    return {"dll": "j1939-21", "nodes": [resp], "ops": ops, "dur": 2_000_000 + 2000 * len(dests) + 1_000_000, "seed": seed,
            "expect": {"settled": False}}
