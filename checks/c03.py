"""C03 - wire format interoperates with an independent SAE J1939-21/-22 implementation.

(a) TLC: MC_Codec - the SAE layout module (the independent implementation) is itself model-checked:
    field tables, compose/parse round trips, segmentation/reassembly identity, legal FD lengths.
(b) stack as encoder: every Tx frame of every trace is decoded by the Codec-based bus monitor (Mon21/Mon22,
    evaluated by TLC): in-order 1-based sequence numbers, sizes/packet counts, LE PGN, 0xFF padding, legal FD
    lengths, and the reassembled payload must be byte-identical to a submitted message;
    stack as decoder: a reference peer (written from the SAE layouts, not from the stack) with its free
    choices enumerated exhaustively for small transfers and seeded for large ones; its own checker, the
    Tp2xCore conformance and the delivery monitor must all agree.
"""
import common
import gen21
import gen22
import gen_peer
import scen


def nontrivial(tr):
    return any(e["ev"] == "ptx" for e in tr["ev"]) and any(e["ev"] in ("cb", "tx") for e in tr["ev"])


def run(chk, replay):
    chk.rule = ("reference peer x stack in either role, RTS/CTS and BAM, both DLLs: the peer's first 3 (quick) / 5 "
                "(thorough) free choices enumerated exhaustively for 2..4 packet transfers, seeded choice sequences "
                "for sizes up to 1785 / 1500 bytes; distinct = distinct abstract event sequence; non-trivial = peer "
                "and stack both put frames on the bus")
    chk.assumptions = ["the reference peer and Codec.tla are written from the SAE field tables (trusted base)",
                       "peer envelope: CTS window 1..min(limit, remaining), 0..3 hold CTS < 0.5 s apart, reply latency "
                       "<= 149 ms, BAM spacing 50..199 ms (10..199 ms FD), DT spacing <= 199 ms"]
    if replay:
        sc = common.json.load(open(replay))["scenario"]
        spec = "Tp21Trace" if sc.get("dll", "j1939-21") == "j1939-21" else "Tp22Trace"
        chk.validate(spec + ".tla", spec + ".cfg", [scen.run(sc)[0]], "replay", nontrivial=nontrivial)
        return
    quick = chk.tier == "quick"
    chk.model("MC_Codec.tla", "MC_Codec.cfg", workers=4)
    for dll, spec in (("j1939-21", "Tp21Trace"), ("j1939-22", "Tp22Trace")):
        scs = gen_peer.exhaustive_small(dll, 3 if quick else 5) + gen_peer.seeded(dll, 150 if quick else 2000, chk.seed + 11)
        for sc in scs:                  # C03 is about formats, not about the F26 pacing corner
            for nd in sc["nodes"]:
                nd["cmdtInt"] = None
        # stack-to-stack traffic is C03 evidence as well (every frame is decoded by the monitor)
        scs += (gen21.grid_c01("quick")[::9] if dll == "j1939-21" else gen22.grid_c02("quick")[::5])
        traces = [scen.run(sc)[0] for sc in scs]
        chk.validate(spec + ".tla", spec + ".cfg", traces, "p" + dll[-2:], nontrivial=nontrivial)
    chk.exhaustive = True


if __name__ == "__main__":
    common.main(run, "C03")
