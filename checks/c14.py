"""C14 - PGN requests reach exactly the addressed operational CAs; claims are answered.

(a) TLC: Dispatch.tla - all 49 152 (configuration, frame) pairs (three CAs in every claim state on two addresses,
    optional address listener; request for an ordinary PGN / the address-claim PGN to owned, unowned, null and
    global addresses, from an ordinary and the null address): ExactlyAddressed, ClaimAnswered, NoStateChange.
(b) real stacks: a responder stack with 0..3 real CAs driven into every claim state by real claim traffic
    (never started, waiting for veto, operational, bypassed, lost -> cannot-claim, lost -> moved to the next
    address), a requester with or without address, PGNs on all boundaries of the 18-bit space and random, data
    page 0/1, every destination class; validated by TLC against ClaimTrace.tla (request callbacks with their three
    arguments, address-claimed answers with NAME and source address, nothing from CAs without address).
"""
import common
import gen_claim
import scen_claim


def nontrivial(tr):
    return any(e["ev"] == "req" for e in tr["ev"]) or \
        sum(1 for e in tr["ev"] if e["ev"] == "tx" and ((e["id"] >> 16) & 0xFF) == 0xEE) >= 3


def run(chk, replay):
    chk.rule = ("seeded: responder stack with 0..3 CAs each in one of 6 claim states reached through real claim traffic, "
                "requester with/without address, 1..6 requests with PGN from the boundary list or random 18-bit, data "
                "page 0/1, destination from {held, preferred-but-lost, address-listener, unowned, 254, 255}; "
                "non-trivial = a request callback ran or a claim was answered")
    chk.assumptions = ["J1939-21 data link layer (as the property states)"]
    if replay:
        sc = common.json.load(open(replay))["scenario"]
        chk.validate("ClaimTrace.tla", "ClaimTrace.cfg", [scen_claim.run(sc)[0]], "replay", nontrivial=nontrivial)
        return
    quick = chk.tier == "quick"
    chk.model("Dispatch.tla", "Dispatch.cfg")
    chk.exhaustive = True
    scs = [gen_claim.request_scenario(chk.seed * 49979687 + i) for i in range(400 if quick else 6000)]
    scs = scs + gen_claim.reactive(chk.tier)       # applications that call into their CA from inside a delivery callback
    traces = [scen_claim.run(sc)[0] for sc in scs]
    chk.validate("ClaimTrace.tla", "ClaimTrace.cfg", traces, "main", nontrivial=nontrivial)


if __name__ == "__main__":
    common.main(run, "C14")
