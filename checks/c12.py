"""C12 - timers fire when due and callback registrations mean what they say.

(a) TLC: Timers.tla - every history of up to 3 (thorough: 4) add_timer / remove_timer operations over one-shot,
    periodic, self-re-registering and removing callbacks, duplicates, arbitrary idle gaps, operations from inside
    callbacks: MonOk (never early, <= wake latency late, no drift, one-shot once, nothing after removal),
    NoSuppression, NoOversleep, Agree.
(b) real ECU: seeded histories of up to 12 add_timer / remove_timer / subscribe / unsubscribe operations (periods
    1 ms..3 s, duplicates, nested operations in callbacks, idle gaps, broadcast frames in between) recorded under
    the virtual clock and validated by TLC against TimersTrace.tla: exact list semantics (TimersCore) plus the
    independent property monitor (MonTimers) at every event.
"""
import random

import common
import scen_timers

GRID = [1000, 2000, 5000, 10000, 50000, 100000, 250000, 1000000, 3000000]


def regressions():
    out = []
    # one-shot followed by periodic with the same deadline (skip-next in the job loop)
    out.append({"scripts": {"1": {"ret": False, "ops": []}, "2": {"ret": True, "ops": []}},
                "ops": [{"t": 0, "op": "add", "cb": 1, "delta": 100000}, {"t": 0, "op": "add", "cb": 2, "delta": 100000}], "dur": 1000000})
    # three registrations of one callback, then remove_timer
    out.append({"scripts": {"1": {"ret": True, "ops": []}},
                "ops": [{"t": 0, "op": "add", "cb": 1, "delta": 50000}, {"t": 10, "op": "add", "cb": 1, "delta": 50000},
                        {"t": 20, "op": "add", "cb": 1, "delta": 50000}, {"t": 120000, "op": "remove", "cb": 1}], "dur": 500000})
    # several subscriptions, unsubscribe, then a message
    out.append({"scripts": {"1": {"ret": True, "ops": []}, "2": {"ret": True, "ops": []}},
                "ops": [{"t": 0, "op": "sub", "cb": 1}, {"t": 0, "op": "sub", "cb": 1}, {"t": 0, "op": "sub", "cb": 1},
                        {"t": 0, "op": "sub", "cb": 2}, {"t": 100, "op": "msg"}, {"t": 200, "op": "unsub", "cb": 1},
                        {"t": 300, "op": "msg"}], "dur": 10000})
    # an application call exactly at the first deadline of a periodic timer (wake at deadline == now)
    out.append({"scripts": {"1": {"ret": True, "ops": []}, "2": {"ret": False, "ops": []}},
                "ops": [{"t": 0, "op": "add", "cb": 1, "delta": 500000}, {"t": 500000, "op": "add", "cb": 2, "delta": 5000}], "dur": 1300000})
    # a callback that removes itself and returns True / False; a callback removing the next entry
    out.append({"scripts": {"1": {"ret": True, "ops": [{"op": "remove", "cb": 1}]}, "2": {"ret": False, "ops": [{"op": "remove", "cb": 2}]},
                            "3": {"ret": True, "ops": [{"op": "remove", "cb": 4}]}, "4": {"ret": True, "ops": []}},
                "ops": [{"t": 0, "op": "add", "cb": 1, "delta": 10000}, {"t": 1, "op": "add", "cb": 2, "delta": 10000},
                        {"t": 2, "op": "add", "cb": 3, "delta": 10000}, {"t": 3, "op": "add", "cb": 4, "delta": 10000}], "dur": 100000})
    # overrun: a slow one-shot holds the job thread for more than two periods of a periodic timer, which must
    # afterwards be back on its grid (registration + k * delta), not re-anchored
    out.append({"scripts": {"1": {"ret": True, "ops": []}, "2": {"ret": False, "ops": [], "busy": 400000}},
                "ops": [{"t": 0, "op": "add", "cb": 1, "delta": 200000}, {"t": 5, "op": "add", "cb": 2, "delta": 300000}],
                "dur": 2000000, "slack": 400000})
    out.append({"scripts": {"1": {"ret": True, "ops": [], "busy": 25000}, "2": {"ret": True, "ops": []}},
                "ops": [{"t": 0, "op": "add", "cb": 1, "delta": 100000}, {"t": 7, "op": "add", "cb": 2, "delta": 3000}],
                "dur": 300000, "slack": 25000})
    # a callback that removes a timer due in the same pass AND registers another one (the list keeps its length):
    # "restart a supervision timer" - the removed one must not fire any more
    for first_ret in (True, False):
        for order in ("remove-add", "add-remove"):
            nested = [{"op": "remove", "cb": 2}, {"op": "add", "cb": 3, "delta": 3000}]
            if order == "add-remove":
                nested.reverse()
            out.append({"scripts": {"1": {"ret": first_ret, "ops": nested}, "2": {"ret": True, "ops": []}, "3": {"ret": False, "ops": []}},
                        "ops": [{"t": 0, "op": "add", "cb": 1, "delta": 100000}, {"t": 0, "op": "add", "cb": 2, "delta": 100000}],
                        "dur": 350000})
    return out


def history(seed):
    rng = random.Random(seed)
    ncb = rng.randint(1, 5)
    scripts = {}
    for k in range(1, ncb + 1):
        ops = []
        if rng.random() < 0.35:
            for _ in range(rng.randint(1, 2)):
                if rng.random() < 0.5:
                    ops.append({"op": "add", "cb": rng.randint(1, ncb), "delta": rng.choice(GRID)})
                else:
                    ops.append({"op": "remove", "cb": rng.randint(1, ncb)})
        ret = rng.random() < 0.5
        if ret and any(o["op"] == "add" for o in ops) and rng.random() < 0.7:
            ops = [o for o in ops if o["op"] != "add"]       # a periodic callback that also adds grows without bound
        scripts[str(k)] = {"ret": ret, "ops": ops}
    # bound the growth: periodic callbacks with nested adds only add one-shots without further adds
    ops = []
    t = 0
    for i in range(rng.randint(1, 12)):
        # application calls never coincide to the microsecond with a deadline (deadlines of earlier calls lie on
        # that call's own sub-millisecond residue; float time stamps would decide such a tie)
        t = (t // 1000) * 1000 + rng.choice([0, 0, 1000, 2000, 9000, 60000, 333000, 1200000, 3100000]) + 13 * i + 5
        k = rng.random()
        cb = rng.randint(1, ncb)
        if k < 0.5:
            ops.append({"t": t, "op": "add", "cb": cb, "delta": rng.choice(GRID)})
        elif k < 0.7:
            ops.append({"t": t, "op": "remove", "cb": cb})
        elif k < 0.82:
            ops.append({"t": t, "op": "sub", "cb": cb})
        elif k < 0.9:
            ops.append({"t": t, "op": "unsub", "cb": cb})
        else:
            ops.append({"t": t, "op": "msg"})
    sc = {"scripts": scripts, "ops": ops, "dur": rng.choice([10000, 300000, 3500000, 7000000]), "seed": seed}
    if rng.random() < 0.25:
        # one slow callback (registered by one call only): other timers overrun while it runs
        adds = [o for o in ops if o["op"] == "add"]
        if adds:
            k = str(rng.choice(adds)["cb"])
            if sum(1 for o in adds if str(o["cb"]) == k) == 1 and not any(str(x["cb"]) == k for v in scripts.values() for x in v["ops"]):
                d = [o for o in adds if str(o["cb"]) == k][0]["delta"]
                busy = rng.choice([d // 3, 2 * d + 7, 5 * d + 11]) if not scripts[k]["ret"] else d // 3
                scripts[k]["busy"] = busy
                sc["slack"] = busy
    return sc


def bounded(sc):
    """keep only scenarios whose scripts cannot register timers without bound and whose periodic timers fire a
    bounded number of times (decided from the scenario, not from what the ECU does with it)"""
    scr = sc["scripts"]
    plain = {k for k, v in scr.items() if not v["ret"] and not any(o["op"] == "add" for o in v["ops"])}
    for k, v in scr.items():
        for o in v["ops"]:
            if o["op"] == "add" and (str(o["cb"]) not in plain or v["ret"]):
                return None
    def firings(dur):
        end = max([o["t"] for o in sc["ops"]] + [0]) + dur
        return sum((end - o["t"]) // o["delta"] if scr[str(o["cb"])]["ret"] else 1
                   for o in sc["ops"] if o["op"] == "add")
    dur = sc["dur"]
    while firings(dur) > 400 and dur > 2000:
        dur //= 2
    if firings(dur) > 400:
        return None
    sc = dict(sc, dur=dur)
    return scen_timers.run(sc)[0]


def nontrivial(tr):
    return sum(1 for e in tr["ev"] if e["ev"] == "timer") >= 2


def run(chk, replay):
    chk.rule = ("seeded histories of 1..12 add_timer/remove_timer/subscribe/unsubscribe operations, periods on the grid "
                "1 ms..3 s, one-shot/periodic/nested-operation callbacks, duplicates, idle gaps 0..3.1 s, plus "
                "regression histories; distinct = distinct abstract event sequence; non-trivial = at least two "
                "timer callbacks fired")
    chk.assumptions = ["callbacks take no time; job thread wake latency exactly 1 us (scheduling latency L = 1 us)",
                       "scenarios whose scripts register timers without bound are dropped (> 1500 events)"]
    if replay:
        sc = common.json.load(open(replay))["scenario"]
        chk.validate("TimersTrace.tla", "TimersTrace.cfg", [scen_timers.run(sc)[0]], "replay", nontrivial=nontrivial, sig=sig)
        return
    quick = chk.tier == "quick"
    chk.model("MC_Timers.tla", "MC_Timers.cfg" if quick else "MC_Timers_t.cfg", timeout=3000)
    scs = regressions() + [history(chk.seed * 7919 + i) for i in range(400 if quick else 5000)]
    # (regression histories are bounded by construction; the static filter would drop periodic callbacks that register one-shots)
    traces = [scen_timers.run(sc)[0] for sc in regressions()] + [t for t in (bounded(sc) for sc in scs[len(regressions()):]) if t is not None]
    chk.validate("TimersTrace.tla", "TimersTrace.cfg", traces, "main", nontrivial=nontrivial, sig=sig)


def sig(tr):
    import hashlib
    h = hashlib.sha1()
    for e in tr["ev"]:
        if e["ev"] in ("api", "timer", "cb"):
            h.update(("%s%s%s|" % (e["ev"], e.get("op", ""), e.get("cb", ""))).encode())
    return h.hexdigest()


if __name__ == "__main__":
    common.main(run, "C12")
