"""C07 - no sequence of received frames can stop, stall or permanently clog the stack.

(a) TLC: Tp21/Tp22 models with a hostile-frame alphabet (every control byte incl. undefined ones, stale /
    duplicate / out-of-range CTS, EOM, aborts, DT without session, short frames, BAM to a specific address,
    RTS to the global address ...), up to 3 hostile frames at ANY point of a running transfer and of idle
    stacks: JobAlive, NoSpin, GivesUp (every session opened by that traffic is released within the longest
    time-out), PoolConsistent, and a transfer submitted after things have settled is delivered.
(b) real code: seeded byte-level hostile sequences of length 1..60 over the protocol-aware alphabet, gaps from
    0 to beyond each time-out, interleaved with the stack's own transfers; afterwards a probe timer must fire
    on time and a well-formed transfer must complete.  Every trace is validated by TLC against
    Tp21Trace/Tp22Trace: the specification must predict every reaction of the code to every odd frame.
"""
import random

import common
import scen
from gen21 import node, send

LOCAL, LOCAL2, PEERA, FOREIGN = 0x10, 0x11, 0x20, 0x77


def hostile_frame(rng, fd):
    """one frame of the protocol-aware alphabet (id, data)"""
    kind = rng.random()
    da = rng.choice([LOCAL, LOCAL, LOCAL, LOCAL2, FOREIGN, 255, 255])
    sa = rng.choice([PEERA, PEERA, PEERA, 0x21, LOCAL, 254, 255, rng.randint(0, 255)])
    prio = rng.randint(0, 7)
    pgnf = rng.choice([0xD000, 0xD000, 0xC100, 0xFEB0, 0x1D000, 0, 0xFFFFFF & rng.getrandbits(18)])
    if not fd:
        if kind < 0.5:
            pf = 0xEC
            ctl = rng.choice([16, 16, 17, 17, 17, 19, 19, 32, 255, 255, 0, 18, 20, 254])
            size = rng.choice([0, 1, 8, 9, 14, 15, 21, 100, 1785, 1786, 65535])
            total = rng.choice([0, 1, 2, 3, 5, 255, (size + 6) // 7 & 255])
            b4 = rng.choice([0, 1, 2, 3, 255])
            if ctl == 17:
                d = [17, rng.choice([0, 0, 1, 2, 3, 255]), rng.choice([0, 1, 2, 3, 4, 255]), 255, 255]
            elif ctl == 255:
                d = [255, rng.choice([1, 2, 3, 250]), 255, 255, 255]
            else:
                d = [ctl, size & 255, size >> 8, total, b4]
            d += [pgnf & 255, (pgnf >> 8) & 255, (pgnf >> 16) & 255]
        elif kind < 0.85:
            pf = 0xEB
            d = [rng.choice([0, 1, 1, 2, 2, 3, 4, 5, 255])] + [rng.randint(0, 255) for _ in range(7)]
        elif kind < 0.93:
            pf = rng.choice([0xD0, 0xC1, 0x00, 0xEF])
            d = [rng.randint(0, 255) for _ in range(8)]
        else:
            pf = rng.choice([0xFE, 0xFF, 0xF0])
            d = [rng.randint(0, 255) for _ in range(8)]
        L = rng.choice([8, 8, 8, 8, 8, 0, 1, 2, 5, 7])
        d = d[:L]
    else:
        sess = rng.choice([0, 0, 0, 1, 2, 7, 8, 15])
        if kind < 0.5:
            pf = 0x4D
            ctl = rng.choice([0, 0, 1, 1, 1, 2, 2, 3, 3, 4, 4, 15, 15, 5, 9, 14])
            size = rng.choice([0, 1, 60, 61, 120, 121, 200, 20000, 0xFFFFFF])
            segs = rng.choice([0, 1, 2, 3, 4, 5, 255, 0xFFFFFF, (size + 59) // 60])
            d = [(sess << 4) | ctl, size & 255, (size >> 8) & 255, (size >> 16) & 255, segs & 255, (segs >> 8) & 255,
                 (segs >> 16) & 255, rng.choice([0, 0, 1, 2, 3, 255]), rng.choice([0, 1, 2, 3, 255]),
                 pgnf & 255, (pgnf >> 8) & 255, (pgnf >> 16) & 255]
            L = rng.choice([12, 12, 12, 12, 12, 0, 1, 8, 11, 16, 64])
            d = (d + [0xFF] * 64)[:L]
        elif kind < 0.82:
            pf = 0x4E
            seq = rng.choice([0, 1, 1, 2, 2, 3, 4, 5, 300, 0xFFFFFF])
            L = rng.choice([64, 64, 64, 8, 12, 5, 4, 3, 0, 20])
            d = ([(sess << 4) | rng.choice([0, 0, 0, 1, 15]), seq & 255, (seq >> 8) & 255, (seq >> 16) & 255]
                 + [rng.randint(0, 255) for _ in range(60)])[:L]
        elif kind < 0.92:
            pf = 0x25
            L = rng.choice([0, 1, 4, 5, 8, 12, 16, 24, 64])
            d = [rng.choice([0x40, 0x40, 0x44, 0x00, 0xE0, 0x41]), rng.randint(0, 255), rng.randint(0, 255),
                 rng.choice([0, 1, 4, 8, 60, 200])] + [rng.randint(0, 255) for _ in range(60)]
            d = d[:L]
        elif kind < 0.96:
            pf = rng.choice([0xEC, 0xEB, 0xD0, 0x00])
            d = [rng.randint(0, 255) for _ in range(rng.choice([8, 12, 64]))]
        else:
            pf = rng.choice([0xFE, 0xFF, 0xF0])
            d = [rng.randint(0, 255) for _ in range(rng.choice([8, 3, 64]))]
    cid = (prio << 26) | (pf << 16) | (da << 8) | sa
    if rng.random() < 0.04:
        cid |= 1 << 24          # data page
    if rng.random() < 0.03:
        cid |= 1 << 25          # extended data page
    return cid, d


GAPS = [0, 0, 0, 1, 100, 1000, 1000, 20000, 100000, 400000, 740000, 760000, 1240000, 1260000, 3100000]


def hostile_scenario(dll, seed, maxlen=60):
    rng = random.Random(seed)
    fd = dll == "j1939-22"
    n = rng.randint(1, maxlen)
    nodes = [node("A", [LOCAL, LOCAL2], rng.choice([1, 700]), rng.choice([1, 2, 3, 255]),
                  lst=[{"tag": "i16", "kind": "int", "adr": 0x16}]),
             node("B", [PEERA], 900, rng.choice([1, 2, 255]))]
    t = 0
    inject, sends = [], []
    own = rng.random() < 0.7
    j = 0
    for i in range(n):
        t += rng.choice(GAPS)
        cid, d = hostile_frame(rng, fd)
        inject.append({"t": t, "node": "A", "id": cid, "data": d, "fd": fd})
        if own and rng.random() < 0.15:
            j += 1
            big = rng.random() < 0.7
            size = rng.randint(61, 400) if (fd and big) else (rng.randint(9, 60) if big else rng.randint(1, 8))
            k = rng.random()
            if k < 0.6:
                sends.append(send(t + rng.choice([0, 1, 500]), "A", LOCAL, 0xD0, PEERA, size, salt=j))
            elif k < 0.8:
                sends.append(send(t + rng.choice([0, 1, 500]), "A", LOCAL, 0xFE, 0x31, size, salt=j))
            else:
                sends.append(send(t + rng.choice([0, 1, 500]), "B", PEERA, 0xD1, LOCAL, size, salt=j))
    # afterwards: every session must be gone within the longest time-out, a probe timer fires on time,
    # and well-formed transfers in both directions complete
    t_probe = t + (3_200_000 if fd else 1_400_000) + 5_100_000
    k = len(sends)
    fin = [send(t_probe + 200_000, "A", LOCAL, 0xD2, PEERA, 130 if fd else 30, salt=90),
           send(t_probe + 200_000, "B", PEERA, 0xD3, LOCAL2, 75 if fd else 19, salt=91),
           send(t_probe + 200_000, "B", PEERA, 0xFE, 0x99, 61 if fd else 9, salt=92)]
    sc = {"dll": dll, "nodes": nodes, "sends": sends + fin, "inject": inject, "hostile": True, "seed": seed,
          "timers": [{"t": t_probe, "node": "A", "delta": 50_000}],
          "dur": 6_000_000,
          "expect": {"all": False, "idle": True, "must": [k + 1, k + 2, k + 3], "accept": [k + 1, k + 2, k + 3], "bus": False,
                     "dm": False}}
    return sc


def alphabet_points(dll, tier, mod=None, bam=False):
    """(b1) the hostile alphabet of the TLC model (exported from the specification by TLC itself) injected after
    EVERY bus frame of a running transfer (and before it), singly and - thorough - in pairs"""
    from vlib import tlc
    fd = dll == "j1939-22"
    mod = mod or ("MC_Tp22_c07" if fd else "MC_Tp21_c07")
    adv = tlc.evaluate(mod, "SetToSeq(MC_Adv)", base_cfg=mod + ".cfg", tag="adv" + dll[-2:])
    adv = sorted(adv, key=lambda f: (f["to"], f["id"], f["data"]))
    size = 121 if fd else 15
    base = {"dll": dll, "nodes": [node("A", [0x10], 1000, 2), node("B", [0x20], 1000, 1)],
            "sends": [send(0, "A", 0x10, 0xD0, 0x20, size, salt=1)], "dur": 3_000_000}
    if bam:                              # the running transfer is a broadcast (the forged frames carry its session key)
        base["sends"] = [send(0, "A", 0x10, 0xFE, 0x31, size, salt=1)]
    _, sim0 = scen.run(dict(base, expect={"all": True, "idle": True}))
    frame_times = sorted(set(e["t"] for e in sim0.trace if e["ev"] == "tx"))
    points = [-500] + [t + 1 for t in frame_times] + [frame_times[-1] + 400_000, frame_times[-1] + 1_300_000]
    out = []
    t_probe = 9_000_000
    fin = [send(t_probe + 200_000, "A", 0x10, 0xFE if bam else 0xD0, 0x31 if bam else 0x20, size + 1, salt=90),
           send(t_probe + 200_000, "B", 0x20, 0xD3, 0x10, size + 2, salt=91)]
    import itertools
    singles = [(f,) for f in adv]
    combos = singles if tier == "quick" else singles + list(itertools.product(adv, adv))
    for combo in combos:
        for pi, pt in enumerate(points):
            if len(combo) == 2 and (pi % 3):        # pairs: every third point
                continue
            inj = []
            for j, f in enumerate(combo):
                inj.append({"t": 1000 + pt + j * 2, "node": f["to"], "id": f["id"], "data": f["data"], "fd": fd})
            sc = dict(base, sends=[dict(base["sends"][0], t=1000)] + fin, inject=inj, hostile=True,
                      timers=[{"t": t_probe, "node": "A", "delta": 50_000}], dur=5_000_000,
                      expect={"all": False, "idle": True, "must": [2, 3], "accept": [2, 3], "bus": False, "dm": False})
            out.append(sc)
    return out


def nontrivial(tr):
    return sum(1 for e in tr["ev"] if e["ev"] == "ptx") >= 1 and \
        any(e["ev"] in ("tx",) for e in tr["ev"])


def run(chk, replay):
    chk.rule = ("seeded hostile frame sequences of length 1..60 over the protocol-aware alphabet (TP.CM/TP.DT resp. "
                "FD.TP.CM/FD.TP.DT/multi-PG ids to local, second-local, foreign and global addresses from peer, own, "
                "254/255 and random sources; every control byte, sessions 0..15, boundary size/packet/sequence fields, "
                "all data lengths), gaps 0 .. 3.1 s, interleaved with own transfers; then probe timer + three "
                "well-formed transfers; non-trivial = the stack reacted on the bus")
    chk.assumptions = ["exceptions raised to the feeder of a malformed frame are allowed (compared with the "
                       "specification's prediction), anything that outlives the call is not",
                       "address-claim and request PGNs are not part of this alphabet (Claim.tla / Dispatch.tla)"]
    if replay:
        sc = common.json.load(open(replay))["scenario"]
        spec = "Tp21Trace" if sc.get("dll", "j1939-21") == "j1939-21" else "Tp22Trace"
        chk.validate(spec + ".tla", spec + ".cfg", [scen.run(sc)[0]], "replay", nontrivial=nontrivial)
        return
    quick = chk.tier == "quick"
    chk.model("MC_Tp21_c07.tla", "MC_Tp21_c07.cfg" if quick else "MC_Tp21_c07t.cfg", timeout=3000)
    chk.model("MC_Tp22_c07q.tla" if quick else "MC_Tp22_c07.tla", "MC_Tp22_c07q.cfg" if quick else "MC_Tp22_c07.cfg", timeout=6000)
    if not quick:      # two hostile frames: pairs over the 12 frames that address the running transfer's sessions (49 M states, ~25 min)
        chk.model("MC_Tp22_c07.tla", "MC_Tp22_c07t.cfg", timeout=9000)
    chk.model("MC_Tp22_c07b.tla", "MC_Tp22_c07b.cfg", timeout=3000)       # control frames forged with source address 255 (F32)
    n = 150 if quick else 2500
    for dll, spec in (("j1939-21", "Tp21Trace"), ("j1939-22", "Tp22Trace")):
        scs = [hostile_scenario(dll, chk.seed * 1000003 + i, 60 if i % 4 else 8) for i in range(n)]
        scs += alphabet_points(dll, chk.tier)
        if dll == "j1939-22":
            scs += alphabet_points(dll, chk.tier, mod="MC_Tp22_c07b", bam=True)
        traces = [scen.run(sc)[0] for sc in scs]
        chk.validate(spec + ".tla", spec + ".cfg", traces, "h" + dll[-2:], nontrivial=nontrivial)


if __name__ == "__main__":
    common.main(run, "C07")
