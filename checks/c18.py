"""C18 - DM14 serves no data without the right key, surfaces errors, and recovers.

(a) TLC: Dm14.tla with seed/key: NoServiceWithoutKey (nothing is handed to the application and nothing is served
    before a DM14 carrying Key(seed sent) arrived), Outcome (an operation succeeds exactly when key, proceed callback and
    respond() were willing), BothIdleAfter (every failure leaves both sides idle), absent server (time-out exception).
(b) real objects: seeded histories of up to 6 operations mixing successes with wrong keys, boundary keys 0x0000/0xFFFF,
    refusal at the proceed callback or at respond() with every defined J1939 error code and undefined ones, an
    absent server; validated by TLC against Dm14Trace.tla: proceed/notify/DM16 only after the right key, the
    exception names the error code the server sent, the no-response exception comes exactly at the caller's time-out,
    and after every failure the next operation runs as the reference model says (it succeeds if everybody is willing);
    histories with a slow serving application (respond() after the caller's time-out: the abandoned transaction is
    completed in the background, the following operations get their own data).
"""
import common
import gen_dm14
import scen_dm14


def nontrivial(tr):
    return any(e["ev"] == "ret" and e["node"] == "C" and "exc" in e for e in tr["ev"])


def run(chk, replay):
    chk.rule = ("seeded histories of 1..6 operations: each read/write succeeds, is refused by the proceed callback, refused "
                "by respond() with an error code from the 40 defined + undefined ones (EDCP 6/7), fails on a wrong key "
                "(whole history), or meets an absent server; seeds incl. those whose key is 0x0000/0xFFFF; non-trivial = at "
                "least one operation raised")
    chk.assumptions = ["key algorithm key(seed) = (3 * seed + k) mod 65536 on both sides (a wrong key = another k on the client)",
                       "an error response 'carries an error indicator' when its EDCP extension is 6 or 7"]
    if replay:
        sc = common.json.load(open(replay))["scenario"]
        chk.validate("Dm14Trace.tla", "Dm14Trace.cfg", [scen_dm14.run(sc)[0]], "replay", nontrivial=nontrivial)
        return
    quick = chk.tier == "quick"
    chk.model("MC_Dm14.tla", "MC_Dm14.cfg")
    chk.model("MC_Dm14.tla", "MC_Dm14_absent.cfg")
    scs = [gen_dm14.failing(chk.seed * 2750159 + i) for i in range(300 if quick else 5000)]
    traces = [scen_dm14.run(sc)[0] for sc in scs]
    chk.validate("Dm14Trace.tla", "Dm14Trace.cfg", traces, "main", nontrivial=nontrivial)
    # a slow serving application: the answer comes after the caller's time-out
    scs = [gen_dm14.late(chk.seed * 1299709 + i) for i in range(120 if quick else 2000)]
    traces = [scen_dm14.run(sc)[0] for sc in scs]
    chk.validate("Dm14Trace.tla", "Dm14Trace.cfg", traces, "late", nontrivial=nontrivial)


if __name__ == "__main__":
    common.main(run, "C18")
