"""C08 - the outcome of a transfer does not depend on where reception pre-empts the job thread.

(a) TLC: Tp21 / Tp22 with Sched = "preempt": the job pass is split into its shared-memory granules (snapshot of the
    keys, lookup, check, abort+delete, per packet advance-state / emit), and a complete reception handler of the same
    stack may run between ANY two granules: JobAlive, NoSpin, delivery monitor, DeliveredAll, sessions released.
    Pre-emption at a source line is pre-emption at the granule boundary before the next shared access.
(b) real code: for each transfer shape every (stack, file, line, occurrence) the job threads execute during the
    transfer is enumerated with a sys.settrace hook and used as pre-emption point: the job thread is held there for
    0.2 / 1 / 5 ms of bus time while everything else - including frame reception on the same stack - keeps running;
    one pre-emption per run exhaustively, two per run sampled.  Every run is validated by TLC in monitor mode
    (Tp21Trace / Tp22Trace, expect.free): payload delivered intact exactly once to the addressed listeners, flow
    control on the bus, job thread alive, no spin, session tables empty at the end.
"""
import random

import common
import gen21
import gen22
import preempt

HOLDS = [200, 1000, 5000]


def shapes(tier):
    out = []
    for dll, mk, size in (("j1939-21", gen21.single, 30), ("j1939-22", gen22.single, 250)):
        wins = [(1, 1), (2, 2), (255, 255)] if tier != "quick" else [(1, 1), (255, 255)]
        for w in wins:
            sc = mk(size, w[0], w[1], 1000, 1000, third=False)
            sc["expect"] = {"all": True, "idle": True, "free": True}
            out.append((dll, "cm%d" % w[0], sc))
        sc = mk(size, 1, 1, 1000, 1000, pf=0xFE, ps=0x31, third=False)
        sc["expect"] = {"all": True, "idle": True, "free": True}
        out.append((dll, "bam", sc))
        if tier != "quick" or dll == "j1939-22":
            # the responder does not exist: the originator gives up after T3 (abort, release); with the application
            # submitting the next message while the job thread is held on that path
            sc = mk(size, 1, 1, 1000, 1000, third=False)
            sc["nodes"] = sc["nodes"][:1]
            sc["expect"] = {"all": False, "idle": True, "free": True}
            out.append((dll, "t3", sc))
        if tier != "quick" or dll == "j1939-21":
            # two sessions of one originator at the same time (to two destinations): the pass walks a snapshot of several keys
            sc = mk(size, 2, 2, 1000, 1000, third=True)
            sc["nodes"][2]["lat"] = 1300
            sc["sends"].append(gen21.send(300, "A", 0x10, 0xD1, 0x30, size + 9, salt=3))
            sc["expect"] = {"all": True, "idle": True, "free": True}
            out.append((dll, "two", sc))
    return out


def follow_up(sc):
    """a second message for the same destination, submitted by the application thread WHILE the job thread is held"""
    s0 = sc["sends"][0]
    return [400, dict(s0, size=s0["size"] + 5, salt=7)]


def peer_abort(sc):
    """the peer's connection abort for the running transfer, received while the job thread is held"""
    s0 = sc["sends"][0]
    pgn = (s0["pf"] << 8)
    if sc.get("dll", "j1939-21") == "j1939-21":
        return [400, {"inject": {"node": s0["node"], "id": (7 << 26) | (0xEC << 16) | (s0["sa"] << 8) | s0["ps"],
                                 "data": [255, 1, 255, 255, 255, pgn & 255, (pgn >> 8) & 255, 0]}}]
    return [400, {"inject": {"node": s0["node"], "id": (7 << 26) | (0x4D << 16) | (s0["sa"] << 8) | s0["ps"], "fd": True,
                             "data": [15, 255, 255, 255, 255, 255, 255, 255, 1, pgn & 255, (pgn >> 8) & 255, 0]}}]


def nontrivial(tr):
    """the hold overlapped a reception on the held stack"""
    held = None
    for e in tr["ev"]:
        if e["ev"] == "hold":
            held = e["node"]
        elif e["ev"] == "resume":
            held = None
        elif e["ev"] == "rx" and held == e["node"]:
            return True
    return False


def sig(tr):
    sc = tr["meta"]["scenario"]
    return common.json.dumps([sc["dll"], [n["maxc"] for n in sc["nodes"]], sc["sends"][0]["pf"], sc["preempt"]])


def run(chk, replay):
    chk.rule = ("per shape (RTS/CTS windows 1, 2, all and BAM, J1939-21 30 bytes / J1939-22 250 bytes): every executed "
                "(stack, file, line, occurrence) of the job threads x hold in {0.2, 1, 5} ms (quick: one hold per point, "
                "rotating), plus seeded double pre-emptions, plus two concurrent sessions of one originator, plus a run per "
                "point in which the application submits the next message for the same destination while the thread is held; distinct = distinct (shape, pre-emption point(s), hold); non-trivial = a "
                "frame was received by the held stack while its job thread was suspended")
    chk.assumptions = ["pre-emption granularity = source line (as the property states); finer (bytecode) interleavings "
                       "are covered only as far as they coincide with a line boundary",
                       "monitor-mode validation: outputs are judged by the property monitors, not predicted frame by frame"]
    if replay:
        sc = common.json.load(open(replay))["scenario"]
        pre = sc.pop("preempt")
        spec = "Tp21Trace" if sc.get("dll", "j1939-21") == "j1939-21" else "Tp22Trace"
        tr, _, _ = preempt.run(sc, tuple(pre["target"]) if pre["target"] else None, pre["hold_us"],
                               tuple(pre["second"]) if pre["second"] else None, during=pre.get("during"))
        chk.validate(spec + ".tla", spec + ".cfg", [tr], "replay", nontrivial=nontrivial)
        return
    quick = chk.tier == "quick"
    chk.model("MC_Tp21_c08.tla", "MC_Tp21_c08.cfg", timeout=3000)
    chk.model("MC_Tp22_c08.tla", "MC_Tp22_c08.cfg", timeout=3000)
    rng = random.Random(chk.seed)
    npoints = 0
    for dll, name, sc in shapes(chk.tier):
        spec = "Tp21Trace" if dll == "j1939-21" else "Tp22Trace"
        tr0, _, p0 = preempt.run(sc)
        # pre-emption points = lines executed DURING the transfer (not the idle polls of the job thread after it)
        t_act = max(e["t"] for e in tr0["ev"] if e["ev"] in ("tx", "rx", "cb")) + 1000
        pts = sorted(p for p in set(p0.points) if p0.point_time[p] <= t_act)
        npoints += len(pts)
        traces = []
        for i, pt in enumerate(pts):
            if quick and name == "two" and i % 2 != chk.seed % 2:
                continue
            for h in ([HOLDS[i % 3]] if quick else HOLDS):
                traces.append(preempt.run(sc, pt, h)[0])
        for _ in range(40 if quick else 600):
            a, b = rng.sample(pts, 2)
            traces.append(preempt.run(sc, a, rng.choice(HOLDS), second=b)[0])
        if name != "two":
            # the application submits the next message for the same destination while the job thread is held: it is
            # either refused (pair busy) or accepted - and then delivered like any other
            sc2 = dict(sc, expect=dict(sc["expect"]))
            last = {}
            for pt in pts:                # quick: each source line once, at its LAST execution during the transfer (where
                if pt[:3] not in last or pt[3] > last[pt[:3]][3]:      # sessions are retired); thorough: every execution
                    last[pt[:3]] = pt
            i_api = min(i for i, e in enumerate(tr0["ev"]) if e["ev"] == "api")
            startup = {pt for pt in pts if p0.point_ev[pt] <= i_api}      # the job threads' very first pass, before any submission
            first = {}
            for pt in pts:                # ... and at its FIRST execution after the start (sessions waiting for the first answer)
                if pt not in startup and (pt[:3] not in first or pt[3] < first[pt[:3]][3]):
                    first[pt[:3]] = pt
            for i, pt in enumerate(pts):
                if pt in startup:
                    continue              # (not the start-up pass: the transfer has not begun, the other stacks do not exist yet)
                if not quick or last[pt[:3]] == pt:
                    traces.append(preempt.run(sc2, pt, 1000, during=follow_up(sc))[0])
                if name == "cm1" and (not quick or first.get(pt[:3]) == pt or last[pt[:3]] == pt):
                    # the peer aborts the connection while the thread is held: whatever becomes of the transfer, the job
                    # thread survives and both sides are idle in the end
                    sc3 = dict(sc, hostile=True, expect={"all": False, "idle": True, "free": True, "bus": False, "dm": False})
                    traces.append(preempt.run(sc3, pt, 1000, during=peer_abort(sc))[0])
        chk.validate(spec + ".tla", spec + ".cfg", traces, "%s%s" % (dll[-2:], name), sig=sig, nontrivial=nontrivial)
    chk.exhaustive = True
    chk.extra["preemption_points"] = npoints


if __name__ == "__main__":
    common.main(run, "C08")
