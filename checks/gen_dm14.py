"""scenario generators for DM14 memory access (C17, C18, C19)"""
import random

ERRORS = [0x0, 0x1, 0x2, 0x10, 0x11, 0x12, 0x13, 0x16, 0x17, 0x1F, 0x20, 0x21, 0x22, 0x23, 0x24, 0x100, 0x101, 0x102, 0x103, 0x104,
          0x105, 0x106, 0x107, 0x108, 0x109, 0x10A, 0x1000, 0x1001, 0x1002, 0x1003, 0x1004, 0x1005, 0x1006, 0x1007, 0x10000,
          0x10001, 0x10002, 0x10003, 0x10004, 0xFFFFFF, 0xBEEF, 0x3, 0x7FFFFF]


def addrs(rng):
    """source addresses of client, server (and intruder): typical ones, now and then the boundary values"""
    return list(rng.choice([(0xF9, 0xD4, 0xE0)] * 5 + [(0x00, 0xD4, 0xE0), (0xF9, 0x00, 0xE0), (0xFD, 0x01, 0xE0), (0x01, 0xFD, 0xE0)]))


def rd(rng, nbytes=None, size=None):
    size = size or rng.choice([1, 1, 2, 4, 8])
    if nbytes is None:
        nbytes = rng.choice([1, 2, 6, 7, 8, 9, 14, 15, 16, 255, rng.randint(1, 255)])
    count = max(1, nbytes // size)
    if count * size > 255:
        count = 255 // size
    data = [rng.randint(0, 255) for _ in range(count * size)]
    if rng.random() < 0.3:
        data = [rng.choice([0, 255, 127, 128]) for _ in range(count * size)]
    op = {"op": "read", "direct": rng.choice([0, 1]), "address": rng.choice([0, 1, 0x92000003, 0xFFFFFFFF, rng.getrandbits(32)]),
          "count": count, "size": size, "signed": rng.random() < 0.5, "raw": rng.random() < 0.4}
    return op, {"proceed": True, "data": data, "delay": rng.choice([1, 1000, 40000])}


def wr(rng, nbytes=None, size=None):
    size = size or rng.choice([1, 1, 2, 4, 8])
    if nbytes is None:
        nbytes = rng.choice([1, 2, 6, 7, 8, 9, 14, 15, 16, 255, rng.randint(1, 255)])
    count = max(1, nbytes // size)
    if count * size > 255:
        count = 255 // size
    top = (1 << (8 * size)) - 1
    vals = [rng.choice([0, 1, top, top - 1, top >> 1, (top >> 1) + 1, rng.randint(0, top)]) for _ in range(count)]
    op = {"op": "write", "direct": rng.choice([0, 1]), "address": rng.choice([0, 7, 0x91000007, 0xFFFFFFFF, rng.getrandbits(32)]),
          "values": vals, "size": size}
    return op, {"proceed": True, "data": [], "delay": rng.choice([1, 1000, 40000])}


def good(seed, nops=None, sizes=None):
    """C17: successful transactions back to back"""
    rng = random.Random(seed)
    ops, resp = [], []
    for i in range(nops or rng.randint(1, 4)):
        nb = sizes[i % len(sizes)] if sizes else None
        o, r = (rd if rng.random() < 0.55 else wr)(rng, nb)
        if ops and rng.random() < 0.4:           # same objects again
            o["address"] = ops[0]["address"]
        o["gap"] = rng.choice([1000, 200000])
        ops.append(o)
        resp.append(r)
    sec = rng.random() < 0.5
    return {"seed_key": sec, "seeds": [rng.choice([1, 2, 0xA55A, 0xFFFE, 0xBEEF, rng.randint(1, 0xFFFE)]) for _ in range(4)],
            "key_k": rng.randint(0, 65535), "lat": [rng.choice([1, 700, 5000]), rng.choice([1, 900, 5000])],
            "ops": ops, "server": {"proceed": [True], "respond": resp}, "rseed": seed, "dur": 600000, "addrs": addrs(rng)}


def failing(seed):
    """C18: histories of up to 6 operations mixing failures and successes"""
    rng = random.Random(seed)
    sec = rng.random() < 0.6
    ops, resp, proceed = [], [], []
    kk = rng.randint(0, 65535)
    absent = rng.random() < 0.12
    n = rng.randint(1, 6)
    wrongkey = sec and rng.random() < 0.35
    seeds = []
    for i in range(n):
        o, r = (rd if rng.random() < 0.5 else wr)(rng, rng.choice([1, 3, 7, 8, 20]))
        o["gap"] = rng.choice([1000, 150000])
        o["timeout"] = rng.choice([300000, 1000000])
        k = rng.random()
        if k < 0.3:
            proceed.append(False)
            resp_needed = False
        else:
            proceed.append(True)
            if k < 0.55:
                r = {"proceed": False, "data": [], "error": rng.choice(ERRORS), "edcp": rng.choice([6, 7, 7, 7]), "delay": rng.choice([1, 5000])}
            resp.append(r)
        ops.append(o)
        # boundary keys: pick seeds whose key is 0x0000 / 0xFFFF now and then
        want = rng.choice([None, None, 0, 0xFFFF, 7, 7])       # 7 = the user level the client puts into the same field of its first DM14
        sd = rng.choice([0, 1, 0xFFFF, 0xFFFE, rng.randint(0, 65535)])
        if want is not None:
            for cand in range(65536):
                if (cand * 3 + kk) % 65536 == want:
                    sd = cand
                    break
        seeds.append(sd)
    sc = {"seed_key": sec, "seeds": seeds, "key_k": kk, "lat": [rng.choice([1, 700]), rng.choice([1, 900])], "ops": ops,
          "server": {"proceed": proceed or [True], "respond": resp or [{"proceed": True, "data": [1]}], "absent": absent},
          "rseed": seed, "dur": 600000, "expect_idle": True, "addrs": addrs(rng)}
    if wrongkey:
        sc["client_k"] = (kk + rng.choice([1, 2, 65535])) % 65536
    return sc


def intruded(seed, shape=None):
    """C19: base transaction shapes; the caller adds the intruder at every bus frame"""
    rng = random.Random(seed)
    kind, sec, nbytes = shape if shape else (rng.choice(["read", "write"]), rng.random() < 0.5, rng.choice([3, 20]))
    o, r = (rd if kind == "read" else wr)(rng, nbytes, 1)
    o["address"] = 0x92000003
    r["delay"] = 30000
    return {"seed_key": sec, "seeds": [0xA55A], "key_k": 11, "lat": [700, 900], "ops": [o], "server": {"proceed": [True], "respond": [r]},
            "rseed": seed, "dur": 600000}


def late(seed):
    """C18: a slow serving application answers AFTER the caller's time-out: the call raises 'no response' at the time-out,
    the late answer completes (and closes) the abandoned transaction in the background, and the operations that follow
    behave as if nothing had happened (their own data, their own completion)"""
    rng = random.Random(seed)
    sec = rng.random() < 0.5
    ops, resp = [], []
    n = rng.randint(2, 4)
    slow = {rng.randrange(n - 1)}
    if n > 3 and rng.random() < 0.4:
        slow.add(rng.randrange(n - 1))
    for i in range(n):
        o, r = (rd if rng.random() < 0.6 else wr)(rng, rng.choice([1, 3, 7, 8, 20]), rng.choice([1, 1, 2]))
        if i in slow:
            o["timeout"] = rng.choice([250000, 400000])
            r["delay"] = o["timeout"] + rng.choice([150000, 350000])
            o["gap"] = r["delay"] - o["timeout"] + rng.choice([300000, 500000])      # everything has settled before the next call
        else:
            o["timeout"] = 1000000
            r["delay"] = rng.choice([1, 1000, 40000])
            o["gap"] = rng.choice([1000, 150000])
        ops.append(o)
        resp.append(r)
    return {"seed_key": sec, "seeds": [rng.randint(1, 0xFFFE) for _ in range(4)], "key_k": rng.randint(0, 65535),
            "lat": [rng.choice([1, 700]), rng.choice([1, 900])], "ops": ops, "server": {"proceed": [True], "respond": resp},
            "rseed": seed, "dur": 800000, "expect_idle": True, "addrs": addrs(rng)}
