"""C01 - J1939-21 transport delivers every accepted message intact, exactly once.

(a) TLC: Tp21.tla, three stacks, concurrent transfers both directions + broadcast, one stack with
    latency 0 (re-entrant replies), every interleaving: delivery and bus monitors, job thread alive,
    sessions given up / released, refusal rule.
(b) traces recorded from the real code (all lengths / windows / latencies incl. 0 / 2-4 stacks /
    seeded mixes) validated by TLC against Tp21Trace.tla with the same monitors at every step.
"""
import common
import gen21
import scen


def nontrivial(tr):
    return any(e["ev"] == "cb" and e["data"] is not None and len(e["data"]) > 8 for e in tr["ev"])


def run(chk, replay):
    chk.rule = ("scenarios: grid of payload length x packets-per-CTS (both sides) x per-receiver latency (incl. 0 = "
                "re-entrant delivery) x PDU1/PDU2/global, plus seeded mixes of simultaneous transfers between 2-4 "
                "stacks; distinct = distinct abstract event sequence (frame kinds, nodes, callbacks); non-trivial = "
                "at least one multi-packet message delivered")
    chk.assumptions = ["virtual clock: handlers take no time; job thread wakes 1 us after its deadline",
                       "zero latency is modelled as synchronous re-entrant delivery inside the sender's call",
                       "priority of delivered multi-packet messages is not compared (not part of the property)"]
    if replay:
        sc = common.json.load(open(replay))["scenario"]
        tr, _ = scen.run(sc)
        chk.validate("Tp21Trace.tla", "Tp21Trace.cfg", [tr], "replay", nontrivial=nontrivial)
        return
    quick = chk.tier == "quick"
    chk.model("MC_Tp21_c01q.tla" if quick else "MC_Tp21_c01.tla", "MC_Tp21_c01q.cfg" if quick else "MC_Tp21_c01.cfg")
    if not quick:
        chk.model("MC_Tp21_c01n.tla", "MC_Tp21_c01n.cfg")
    scs = gen21.grid_c01(chk.tier) + gen21.mixes(150 if quick else 1500, chk.seed)
    traces = [scen.run(sc)[0] for sc in scs]
    chk.validate("Tp21Trace.tla", "Tp21Trace.cfg", traces, "main", nontrivial=nontrivial)


if __name__ == "__main__":
    common.main(run, "C01")
