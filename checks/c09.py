"""C09 - originator obeys flow control and pacing; responder never over-grants.

(a) TLC: Tp21/Tp22 models (windows 1,2,3 on the two sides, several windows per transfer, one stack with
    latency 0 = CTS handled inside the DT send call): BusOk - every TP.DT on the bus is in sequence and
    cleared by a CTS the responder put on the bus before; every CTS of a stack grants <= RTS limit,
    <= own maximum, <= remaining.
(b) real code against the reference peer (its grants 1..limit, holds, reply latencies, RTS limits drawn
    exhaustively for small transfers and seeded for large ones) and stack-to-stack with windows 1..255 on
    both sides, BAM / connection-mode minimum intervals, latencies [0, 5 ms]; the bus monitor of
    Mon21/Mon22 is evaluated by TLC on every frame with exact virtual send times (pacing to the us).
"""
import random

import common
import gen21
import gen22
import gen_peer
import scen


def known_f26_scenarios():
    out = []
    for dll in ("j1939-21", "j1939-22"):
        sc = gen_peer.stack_to_peer(dll, 121 if dll == "j1939-21" else 400, 2, script=[0, 0, 1, 0, 1, 0, 1, 0, 1, 0, 1, 0, 1, 0, 1, 0, 1, 0, 1],
                                    cmdtInt=20000)
        out.append(sc)
    return out


def windows(dll, tier, seed):
    rng = random.Random(seed + 5)
    out = []
    fd = dll == "j1939-22"
    ws = [1, 2, 3, 4, 7, 8, 16, 100, 254, 255]
    n = 60 if tier == "quick" else 600
    for i in range(n):
        wa, wb = rng.choice(ws), rng.choice(ws)
        size = rng.choice([61, 200, 1000, 3000] if fd else [9, 30, 100, 500, 1785]) + rng.randint(0, 70)
        if not fd:
            size = min(size, 1785)
        la, lb = rng.choice([(0, 0), (0, 1000), (1000, 0), (1, 5000), (700, 700)])
        mk = gen22.single if fd else gen21.single
        sc = mk(size, wa, wb, la, lb)
        iv = rng.choice([None, None, 1000, 7000, 50000])
        sc["nodes"][0]["cmdtInt"] = iv
        if iv:
            sc["dur"] += ((size // (60 if fd else 7)) + 2) * iv
        for nd in sc["nodes"]:
            nd["paceMax"] = 200001
        out.append(sc)
    # BAM pacing with configured intervals
    for bi in [None, 10000, 50000, 120000, 190000]:
        for size in ([130, 700] if fd else [20, 100]):
            sc = mk(size, 1, 1, 1000, 0 if not fd else 1, pf=0xFE, ps=0x21)
            sc["nodes"][0]["bamInt"] = bi
            sc["dur"] = 3_000_000 + (size // (60 if fd else 7) + 3) * (bi or 50000)
            for nd in sc["nodes"]:
                nd["paceMax"] = 200001
            out.append(sc)
            if bi in (None, 120000):
                # the same broadcast while a cyclic application timer is running on the originator (shared job loop)
                out.append(dict(sc, timers=[{"t": 0, "node": "A", "delta": 333337, "periodic": True}]))
    return out


def nontrivial(tr):
    return sum(1 for e in tr["ev"] if e["ev"] in ("tx", "ptx") and len(e["data"]) >= 3 and
               ((e["id"] >> 16) & 0xFF) in (0xEC, 0x4D)) >= 3


def run(chk, replay):
    chk.rule = ("stack as originator/responder against the reference peer (choices exhaustive to depth 2-3 for 2..4 "
                "packets, seeded otherwise) and stack-to-stack with max_cmdt_packets 1..255 both sides, BAM/CMDT "
                "minimum intervals, latency incl. 0; distinct = distinct abstract event sequence; non-trivial = at "
                "least three transport control frames (several windows / holds)")
    chk.assumptions = ["pacing upper bound checked as <= 200 ms + 1 us wake latency on an otherwise idle stack",
                       "bus clauses are judged on fault-free scenarios (the property does not quantify over faults)"]
    if replay:
        sc = common.json.load(open(replay))["scenario"]
        spec = "Tp21Trace" if sc.get("dll", "j1939-21") == "j1939-21" else "Tp22Trace"
        chk.validate(spec + ".tla", spec + ".cfg", [scen.run(sc)[0]], "replay", nontrivial=nontrivial)
        return
    quick = chk.tier == "quick"
    chk.model("MC_Tp21_c09q.tla" if quick else "MC_Tp21_c09.tla", "MC_Tp21_c09q.cfg" if quick else "MC_Tp21_c09.cfg", timeout=3000)
    chk.model("MC_Tp22_c09.tla", "MC_Tp22_c09.cfg", timeout=3000)
    # the known finding F26 at model level: with a minimum interval configured TLC must find the pacing clause
    chk.model("MC_Tp22_c09k.tla", "MC_Tp22_c09k.cfg", expect_violation="BusOk")
    chk.model("MC_Tp21_c09k.tla", "MC_Tp21_c09k.cfg", expect_violation="BusOk")
    for dll, spec in (("j1939-21", "Tp21Trace"), ("j1939-22", "Tp22Trace")):
        scs = gen_peer.exhaustive_small(dll, 2 if quick else 4) + gen_peer.seeded(dll, 80 if quick else 1000, chk.seed) \
            + windows(dll, chk.tier, chk.seed) + [s for s in known_f26_scenarios() if s["dll"] == dll]
        traces = [scen.run(sc)[0] for sc in scs]
        chk.validate(spec + ".tla", spec + ".cfg", traces, "p" + dll[-2:], nontrivial=nontrivial)
    if "F26" not in chk.known_seen:
        raise common.Machinery("known finding F26 no longer reproduces - update the ledger")


if __name__ == "__main__":
    common.main(run, "C09")
