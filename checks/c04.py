"""C04 - address claiming yields unique addresses; the lowest NAME keeps a contested one.

(a) TLC: Claim.tla - 3 / 3 / 4 CAs on separate stacks (MC_Claim2/3/4): NAME orders, arbitrary or not, equal and
    adjacent preferred addresses, immediate and veto range, start offsets before / inside / after the others'
    veto window, claim delays, latency 0 (reply processed inside the send call) and 1: Unique, Settles,
    LowestKeeps, LoserFixed (+ SaHeld for C13) in every interleaving.
(b) real CAs on separate real stacks: complete 2-CA grid + seeded 2..4-CA scenarios with NAMEs differing in
    arbitrary fields (the 64-bit comparison is exercised through the 8 NAME bytes of each claim), latencies
    [0, 5 ms]; validated by TLC against ClaimTrace.tla (CaCore conformance of every frame / state / sleep time
    + the end-of-trace C04 monitor: settled, unique, lowest NAME keeps, cannot-claim from 254).
"""
import common
import gen_claim
import scen_claim


def nontrivial(tr):
    return sum(1 for e in tr["ev"] if e["ev"] == "tx" and ((e["id"] >> 16) & 0xFF) == 0xEE) >= 3


def run(chk, replay):
    chk.rule = ("complete grid for 2 CAs (NAME order x arbitrary-capable x equal/adjacent preferred x immediate/veto "
                "range x start offset x latency 0/1ms) + seeded 2..4 CA scenarios (random NAME fields, styles equal / "
                "adjacent / distinct / mixed, start times and claim delays around the 250 ms veto window, latencies "
                "0..5 ms); non-trivial = at least three address-claimed frames on the bus (a contention happened)")
    chk.assumptions = ["one CA per stack (as the property states); virtual clock, wake latency 1 us",
                       "settling is judged 0.8 s x (number of CAs + 1) + 1 s after the start of the scenario"]
    if replay:
        sc = common.json.load(open(replay))["scenario"]
        chk.validate("ClaimTrace.tla", "ClaimTrace.cfg", [scen_claim.run(sc)[0]], "replay", nontrivial=nontrivial)
        return
    quick = chk.tier == "quick"
    chk.model("MC_Claim3.tla", "MC_Claim3.cfg")
    chk.model("MC_Claim2.tla", "MC_Claim2.cfg")
    if not quick:
        chk.model("MC_Claim4.tla", "MC_Claim4.cfg", timeout=3000)
    scs = gen_claim.grid2(chk.tier) + gen_claim.bitwalk(chk.tier) + [gen_claim.claim_scenario(chk.seed * 15485863 + i) for i in range(250 if quick else 4000)]
    scs = scs + gen_claim.reactive(chk.tier)       # applications that call into their CA from inside a delivery callback
    traces = [scen_claim.run(sc)[0] for sc in scs]
    chk.validate("ClaimTrace.tla", "ClaimTrace.cfg", traces, "main", nontrivial=nontrivial)


if __name__ == "__main__":
    common.main(run, "C04")
