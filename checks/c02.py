"""C02 - J1939-22 (FD) transport delivers every accepted message intact, exactly once; refusal beyond capacity.

(a) TLC: Tp22.tla with pools scaled to 2+1 (the code is uniform in the pool size), two stacks, both
    directions, more submissions than numbers: delivery / bus monitors, PoolConsistent, RefusalRule (a
    refused call emits nothing and changes nothing), InboundNeverTouchesPool, GivesUp.
(b) real code, pools 8+4: all residues mod 60, windows, latencies in (0,5 ms], 1..8 + 0..4 concurrent
    sessions per originator in one or both directions, calls beyond capacity; validated by TLC
    against Tp22Trace.tla (every frame, callback, pool bit, session table).
"""
import common
import gen22
import scen


def nontrivial(tr):
    return any(e["ev"] == "cb" and e["data"] is not None and len(e["data"]) > 60 for e in tr["ev"])


def run(chk, replay):
    chk.rule = ("grid of payload length (all residues mod 60) x segments-per-CTS both sides x latency in (0,5ms]; "
                "capacity scenarios (1..8 RTS/CTS + 0..4 BAM sessions per originator, one/both directions, calls beyond "
                "capacity); seeded mixes between 2-4 stacks; distinct = distinct abstract event sequence; "
                "non-trivial = a message longer than 60 bytes delivered")
    chk.assumptions = ["virtual clock; latencies in (0, 5 ms] as the property states (zero latency is C09/C08's business)",
                       "model pools scaled to 2+1 session numbers; the trace specification uses 8+4"]
    if replay:
        sc = common.json.load(open(replay))["scenario"]
        chk.validate("Tp22Trace.tla", "Tp22Trace.cfg", [scen.run(sc)[0]], "replay", nontrivial=nontrivial)
        return
    quick = chk.tier == "quick"
    chk.model("MC_Tp22_c02q.tla" if quick else "MC_Tp22_c02.tla", "MC_Tp22_c02q.cfg" if quick else "MC_Tp22_c02.cfg",
              timeout=3000)
    scs = gen22.grid_c02(chk.tier) + gen22.capacity(chk.tier, chk.seed) + gen22.staggered(chk.tier) + gen22.mixes(80 if quick else 800, chk.seed)
    traces = [scen.run(sc)[0] for sc in scs]
    chk.validate("Tp22Trace.tla", "Tp22Trace.cfg", traces, "main", nontrivial=nontrivial)


if __name__ == "__main__":
    common.main(run, "C02")
