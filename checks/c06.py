"""C06 - lost frames or a vanished peer end a transfer cleanly, never with corrupt data.

(a) TLC: Tp21/Tp22 models with at most one lost frame (chosen at every emission) or one vanished peer,
    followed by a fresh transfer on the same pair: delivery monitor (payload or nothing), GivesUp
    (time bound), AbortOnGiveUp, job alive, follow-up accepted.
(b) real code: every transfer shape x loss of the k-th bus frame for every k x silence of either peer
    from frame k on, then a follow-up transfer; traces validated against Tp21Trace/Tp22Trace.
"""
import common
import gen21
import scen


def shapes(tier):
    sizes = [9, 15, 22, 30, 50, 84] if tier == "quick" else [9, 14, 15, 21, 22, 29, 36, 43, 50, 57, 64, 71, 78, 84]
    wins = [(1, 1), (2, 2), (3, 3), (255, 255), (2, 255)] if tier == "quick" else \
           [(1, 1), (2, 2), (3, 3), (255, 255), (2, 255), (255, 2), (3, 1)]
    out = []
    for s in sizes:
        for w in wins:
            out.append(("cm", s, w))
        out.append(("bam", s, (1, 1)))
    return out


def base(kind, size, w, lat, dll="j1939-21"):
    if kind == "cm":
        sc = gen21.single(size, w[0], w[1], lat, lat, third=False, dll=dll)
    else:
        sc = gen21.single(size, 1, 1, lat, lat, pf=0xFE, ps=0x55, third=False, dll=dll)
    return sc


def shapes22(tier):
    sizes = [61, 121, 200, 360, 700] if tier == "quick" else [61, 120, 121, 180, 200, 260, 320, 380, 440, 500, 560, 620, 700]
    wins = [(1, 1), (2, 2), (3, 3), (255, 255)] if tier == "quick" else [(1, 1), (2, 2), (3, 3), (255, 255), (2, 255), (255, 2)]
    out = []
    for s in sizes:
        for w in wins:
            out.append(("cm", s, w))
        out.append(("bam", s, (1, 1)))
    return out


def scenarios21(tier, dll="j1939-21"):
    out = []
    for kind, size, w in (shapes(tier) if dll == "j1939-21" else shapes22(tier)):
        for lat in ((1000,) if tier == "quick" else ((1000, 0) if dll == "j1939-21" else (1000, 1))):
            sc0 = base(kind, size, w, lat, dll)
            tr0, sim0 = scen.run(sc0)
            nfr = sim0.nframes
            follow = gen21.send(6_000_000, "A", 0x10, sc0["sends"][0]["pf"], sc0["sends"][0]["ps"], size + 1, salt=9)
            t_last = max(e["t"] for e in tr0["ev"] if e["ev"] == "tx")
            early = gen21.send(t_last + 100_000, "A", 0x10, sc0["sends"][0]["pf"], sc0["sends"][0]["ps"], size + 1, salt=9)
            for k in range(nfr):
                sc = dict(sc0, sends=sc0["sends"] + [follow], drop=[k], dur=16_000_000,
                          expect={"all": False, "idle": True, "must": [2], "slack": 0})
                out.append(sc)
                if kind == "bam" and k > 0:
                    # the originator of a broadcast does not notice the loss: its next broadcast starts while the
                    # receivers still hold the incomplete one (within T1).  The property promises delivery only for a
                    # transfer started after the time-out, so here only "exact payload or nothing, never a mixed one"
                    # is demanded (observation O3: the FD stack drops such a broadcast when the EOM status was lost)
                    out.append(dict(sc0, sends=sc0["sends"] + [early], drop=[k], dur=8_000_000,
                                    expect={"all": False, "idle": True, "slack": 0}))
                for who in ("A", "B"):
                    sc = dict(sc0, sends=sc0["sends"] + [follow], silence=[{"node": who, "from": k}],
                              dur=16_000_000,
                              expect={"all": False, "idle": True, "accept": ([2] if who == "B" else []), "slack": 0})
                    out.append(sc)
    return out


def nontrivial(tr):
    return any(e["ev"] in ("lost", "silence") for e in tr["ev"])


def run(chk, replay):
    chk.level = "model_checking"
    chk.rule = ("every transfer shape (BAM / RTS-CTS, sizes giving 2..12 packets, windows 1,2,3,all) x loss of the "
                "k-th bus frame for EVERY k x silence of either peer from frame k on for EVERY k, each followed by a "
                "fresh transfer on the same pair (after everything has timed out; for broadcasts also 100 ms after the "
                "originator finished, i.e. while the receivers still hold the incomplete one); distinct = distinct abstract event sequence; non-trivial = a frame "
                "was actually lost / a peer actually fell silent")
    chk.assumptions = ["a lost frame is lost for every receiver (bus-level loss)",
                       "a silent peer neither sends nor reacts from the k-th bus frame on",
                       "virtual clock, job thread wake latency 1 us"]
    if replay:
        sc = common.json.load(open(replay))["scenario"]
        tr, _ = scen.run(sc)
        spec = "Tp21Trace" if sc.get("dll", "j1939-21") == "j1939-21" else "Tp22Trace"
        chk.validate(spec + ".tla", spec + ".cfg", [tr], "replay", nontrivial=nontrivial)
        return
    chk.model("MC_Tp21_c06.tla", "MC_Tp21_c06.cfg")
    if chk.tier != "quick":
        chk.model("MC_Tp21_c06b.tla", "MC_Tp21_c06b.cfg")
    chk.model("MC_Tp22_c06q.tla" if chk.tier == "quick" else "MC_Tp22_c06.tla", "MC_Tp22_c06q.cfg" if chk.tier == "quick" else "MC_Tp22_c06.cfg")
    scs = scenarios21(chk.tier)
    traces = [scen.run(sc)[0] for sc in scs]
    chk.validate("Tp21Trace.tla", "Tp21Trace.cfg", traces, "l21", nontrivial=nontrivial)
    scs2 = scenarios21(chk.tier, "j1939-22")
    traces = [scen.run(sc)[0] for sc in scs2]
    chk.validate("Tp22Trace.tla", "Tp22Trace.cfg", traces, "l22", nontrivial=nontrivial)
    chk.exhaustive = True
    chk.extra["fault_points_enumerated"] = len(scs) + len(scs2)


if __name__ == "__main__":
    common.main(run, "C06")
