"""C11 - FD multi-PG packing preserves every group and honours frame and time limits.

(a) TLC: MC_Mpg - the fit / fill / padding arithmetic for ALL triples of group lengths placed into one collection
    buffer chain (quick: boundary grid; thorough: all 60^3): every frame <= 64 bytes with a legal FD length, the
    reference decoder recovers exactly the groups in order, nothing lost, nothing mixed.
    MC_Tp22_c11 - submissions with and without time limit interleaved with the job thread's sleep/wake-ups:
    bus monitor (each group once, on the bus <= submission + limit + wake latency), delivery monitor.
(b) real code: seeded sequences of 1..12 send_pgn calls (lengths 1..60, PDU1/PDU2, 1..3 destinations incl.
    global, time_limit 0 / 1..200 ms, FEFF end to end, FBFF checked by the reference decoder only), from the
    application thread and from a timer callback, at arbitrary instants; validated by TLC against Tp22Trace
    (Tp22Core packing model + Mon22 multi-PG clauses + delivery monitor).
"""
import random

import common
import scen
from gen21 import node, send


def sequence(seed):
    rng = random.Random(seed)
    nodes = [node("A", [0x10], 700, 1), node("B", [0x20], rng.choice([1, 900]), 1), node("C", [0x30, 0x31], 1300, 1)]
    dests = rng.sample([0x20, 0x30, 0x31, 0xFF], rng.randint(1, 3))
    sends, timers = [], []
    t = rng.choice([0, 137, 4_999_000, 5_000_500])          # also right around the idle wake-up of the job thread
    n = rng.randint(1, 12)
    tls = rng.choice([[0], [0, 50000], [1000, 20000, 200000], [100000], [1000]])
    for i in range(n):
        t += rng.choice([0, 0, 3, 300, 1000, 7000, 30000, 120000])   # never exactly the 1 us wake latency apart
        size = rng.choice([1, 2, 8, 9, 27, 28, 29, 30, 31, 55, 56, 57, 59, 60, rng.randint(1, 60), rng.randint(1, 60)])
        tl = rng.choice(tls)
        ff = 3
        if rng.random() < 0.55:
            pf, ps = rng.choice([0xD0, 0xEF, 0x01]), rng.choice(dests)
        else:
            pf, ps = rng.choice([0xFE, 0xFF, 0xF1]), rng.randint(0, 255)
            if rng.random() < 0.3:
                ff = 2
        if ff == 3 and ps == 0xFF and pf < 240 and rng.random() < 0.3:
            ff = 2
        q = send(t, "A", 0x10, pf, ps, size, prio=rng.randint(0, 7), dp=rng.choice([0, 0, 1]), salt=i + 1)
        q["time_limit"] = tl
        q["ff"] = ff
        if rng.random() < 0.2:
            d = rng.choice([1000, 20000])
            t += d + 2000                   # one probe timer at a time
            timers.append({"t": t - d - 1000, "node": "A", "delta": d, "send": dict(q, t=0)})
        else:
            sends.append(q)
    return {"dll": "j1939-22", "nodes": nodes, "sends": sends, "timers": timers, "seed": seed, "dur": 1_500_000,
            "expect": {"all": True, "idle": True}}


def regressions():
    out = []
    # a lone group with a time limit on an idle stack (job asleep for 5 s): the deadline must wake it
    sc = sequence(1)
    q = send(1000, "A", 0x10, 0xD0, 0x20, 8, salt=1)
    q["time_limit"] = 100000
    out.append(dict(sc, sends=[q], timers=[]))
    # a second group with a shorter limit joins the buffer
    q2 = send(2000, "A", 0x10, 0xD1, 0x20, 8, salt=2)
    q2["time_limit"] = 5000
    q1 = dict(q, time_limit=200000)
    out.append(dict(sc, sends=[q1, q2], timers=[]))
    # groups that exactly fill a frame, overflow by one byte, 60-byte groups
    for a, b in ((28, 28), (28, 29), (56, 1), (57, 1), (60, 60), (27, 28), (1, 55)):
        x = send(0, "A", 0x10, 0xD0, 0x20, a, salt=3)
        y = send(10, "A", 0x10, 0xD1, 0x20, b, salt=4)
        x["time_limit"] = y["time_limit"] = 30000
        out.append(dict(sc, sends=[x, y], timers=[]))
    return out


def nontrivial(tr):
    return any(e["ev"] == "tx" and ((e["id"] >> 16) & 0xFF) == 0x25 and len(e["data"]) > 12 for e in tr["ev"])


def run(chk, replay):
    chk.rule = ("seeded sequences of 1..12 send_pgn calls with lengths 1..60 (boundaries favoured), PDU1/PDU2, 1..3 "
                "destinations incl. global, time limits {0, 1..200 ms}, FEFF and FBFF, from the application thread and "
                "from a timer callback, around the job thread's sleep; distinct = distinct abstract event sequence; "
                "non-trivial = a multi-PG frame carrying more than one small group or a group > 8 bytes")
    chk.assumptions = ["scheduling latency = 1 us wake latency of the job thread (virtual clock)",
                       "FBFF frames are not received by the stacks (only decoded by the reference decoder)"]
    if replay:
        sc = common.json.load(open(replay))["scenario"]
        chk.validate("Tp22Trace.tla", "Tp22Trace.cfg", [scen.run(sc)[0]], "replay", nontrivial=nontrivial)
        return
    quick = chk.tier == "quick"
    chk.model("MC_Mpg.tla", "MC_Mpg.cfg" if quick else "MC_Mpg_t.cfg", timeout=3000)
    chk.model("MC_Tp22_c11.tla", "MC_Tp22_c11.cfg", timeout=3000)
    scs = regressions() + [sequence(chk.seed * 104729 + i) for i in range(300 if quick else 4000)]
    traces = [scen.run(sc)[0] for sc in scs]
    chk.validate("Tp22Trace.tla", "Tp22Trace.cfg", traces, "main", nontrivial=nontrivial)


if __name__ == "__main__":
    common.main(run, "C11")
