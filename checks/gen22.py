"""scenario generators for the J1939-22 (FD) transport checks (C02, C03, C06, C09, C10, C11)"""
import random
import gen21
from gen21 import node, send

DLL = "j1939-22"


def single(size, wa, wb, la, lb, pf=0xD0, ps=0x20, **kw):
    nseg = (size + 59) // 60
    dur = 4_500_000 + nseg * (25_000 if (ps == 255 or pf >= 240) else 12_000)
    return gen21.single(size, wa, wb, la, lb, pf=pf, ps=ps, dll=DLL, dur=dur, **kw)


def grid_c02(tier):
    out = []
    wins = [(1, 1), (2, 3), (255, 255), (1, 255), (255, 1), (3, 2)]
    lats = [(1000, 1000), (1, 5000), (5000, 1), (100, 100)]
    sizes = list(range(61, 191)) + [239, 240, 241, 599, 600, 601, 1785]
    if tier == "thorough":
        sizes += list(range(191, 1300, 7)) + [5999, 6000, 6001, 12000]
    k = 0
    for s in sizes:
        reps = 2 if tier == "quick" else 4
        for r in range(reps):
            w = wins[k % len(wins)]
            L = lats[(k // 2) % len(lats)]
            k += 1
            out.append(single(s, w[0], w[1], L[0], L[1]))
    for s in [19999, 20000]:
        out.append(single(s, 255, 255, 1000, 1000))
        out.append(single(s, 3, 7, 1, 5000))
        out.append(single(s, 1, 1, 1000, 1000, pf=0xFE, ps=0x01))
    for s in [61, 119, 120, 121, 180, 400] + ([] if tier == "quick" else list(range(122, 180))):
        for pf, ps in ((0xFE, 0x12), (0xD0, 0xFF), (0xF0, 0x00)):
            out.append(single(s, 1, 1, 1000, 300, pf=pf, ps=ps))
    return out


def capacity(tier, seed):
    """1..8 RTS/CTS + 0..4 BAM sessions per originator at once, one or both directions, and the
    calls beyond capacity (which must return False, emit nothing, change nothing)"""
    rng = random.Random(seed + 77)
    out = []
    combos = [(8, 4, False), (9, 5, False), (8, 4, True), (10, 6, True), (3, 1, True), (1, 0, True), (8, 0, False), (0, 5, False)]
    if tier == "thorough":
        combos += [(rng.randint(1, 10), rng.randint(0, 6), rng.random() < 0.5) for _ in range(40)]
    for ncm, nbam, both in combos:
        for lat in ([(1000, 1000, 700)] if tier == "quick" else [(1000, 1000, 700), (1, 5000, 50), (3000, 200, 1)]):
            nodes = [node("A", [0x10], lat[0], rng.choice([1, 2, 255])), node("B", [0x20, 0x21], lat[1], rng.choice([1, 3, 255])),
                     node("C", [0x30], lat[2], 2)]
            sends = []
            j = 0
            for i in range(ncm):
                j += 1
                sends.append(send(rng.choice([0, 0, 500]), "A", 0x10, 0xD0 + (i % 8), rng.choice([0x20, 0x21, 0x30]),
                                  rng.choice([61, 120, 121, 200, 333]), salt=j))
            for i in range(nbam):
                j += 1
                sends.append(send(rng.choice([0, 0, 700]), "A", 0x10, 0xFE, 0x40 + i, rng.choice([61, 121, 250]), salt=j))
            if both:
                for i in range(rng.randint(1, 8)):
                    j += 1
                    sends.append(send(rng.choice([0, 300, 2000]), "B", rng.choice([0x20, 0x21]), 0xC0 + i, 0x10,
                                      rng.choice([61, 100, 180, 241]), salt=j))
                for i in range(rng.randint(0, 4)):
                    j += 1
                    sends.append(send(rng.choice([0, 900]), "C", 0x30, 0xFF, i, rng.choice([61, 130]), salt=j))
            out.append({"dll": DLL, "nodes": nodes, "sends": sends, "dur": 6_000_000,
                        "expect": {"all": True, "idle": True}})
    return out


def staggered(tier):
    """out-of-order completion: one long transfer (window 1) stays open while 9 (BAM: 5) further transfers of the same
    originator are started and completed strictly one after the other - session numbers are handed out and returned
    while another one stays in use"""
    out = []
    for kind in ("cm", "bam"):
        nodes = [node("A", [0x10], 700, 1), node("B", [0x20], 700, 1), node("C", [0x30], 400, 2)]
        if kind == "cm":
            sends = [send(0, "A", 0x10, 0xD0, 0x20, 20000 if tier == "quick" else 40000, salt=1)]
            sends += [send(30_000 + 45_000 * i, "A", 0x10, 0xD1 + i, 0x20, 61 + i, salt=2 + i) for i in range(9)]
            dur = 6_000_000
        else:
            sends = [send(0, "A", 0x10, 0xFE, 0x40, 3000, salt=1)]                  # 50 segments at 10 ms
            sends += [send(20_000 + 90_000 * i, "A", 0x10, 0xFE, 0x41 + i, 61 + i, salt=2 + i) for i in range(5)]
            dur = 5_000_000
        out.append({"dll": DLL, "nodes": nodes, "sends": sends, "dur": dur, "expect": {"all": True, "idle": True}})
    return out


def mixes(n, seed, maxsize=400):
    scs = gen21.mixes(n, seed, dll=DLL, maxsize=maxsize)
    for sc in scs:
        for nd in sc["nodes"]:                       # C02: latencies in (0, 5 ms]
            if nd["lat"] == 0:
                nd["lat"] = 1
            elif isinstance(nd["lat"], list) and nd["lat"][0] == 0:
                nd["lat"][0] = 1
        for s in sc["sends"]:
            if s["size"] == 0:
                s["size"] = 1
    return scs
