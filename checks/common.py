"""shared machinery of the per-property checks: TLC model runs, trace validation against the
real code, verdicts (OK / KNOWN-FINDING / VIOLATION / machinery failure), replay files, evidence."""
import hashlib
import json
import os
import sys
import time
import traceback

VERIF = os.path.dirname(os.path.dirname(os.path.abspath(__file__)))
sys.path.insert(0, VERIF)
sys.path.insert(0, os.path.join(VERIF, "harness"))

from vlib import tlc, tracecheck   # noqa: E402

FINDINGS = os.path.join(VERIF, "findings", "known_findings.json")


class Machinery(Exception):
    """the checking machinery itself failed (exit 2) - never reported as a violation"""


def load_findings():
    if not os.path.exists(FINDINGS):
        return []
    with open(FINDINGS) as fh:
        return json.load(fh)["findings"]


def _get(d, path):
    for p in path.split("."):
        if isinstance(d, list):
            d = d[int(p)]
        else:
            d = d.get(p) if isinstance(d, dict) else None
        if d is None:
            return None
    return d


def finding_matches(f, prop, clause_list, scenario):
    """a known finding is identified by property + failing clause + the specific input (scenario fields)"""
    if f.get("status") != "known" or f["property"] != prop:
        return False
    sig = f["signature"]
    if not any(sig["clause"] in c for c in clause_list):
        return False
    for path, want in sig.get("scenario", {}).items():
        have = _get(scenario, path)
        if isinstance(want, dict):
            if "ge" in want and not (have is not None and have >= want["ge"]):
                return False
            if "in" in want and have not in want["in"]:
                return False
        elif have != want:
            return False
    return True


class Check:
    def __init__(self, prop, tier, seed, level="model_checking"):
        self.prop = prop
        self.tier = tier
        self.seed = seed
        self.level = level
        self.t0 = time.time()
        self.states = 0
        self.transitions = 0
        self.traces = 0
        self.trace_events = 0
        self.evaluations = 0
        self.sigs = set()
        self.samples = []
        self.violations = []
        self.known_seen = {}
        self.models = []
        self.assumptions = []
        self.rule = ""
        self.exhaustive = False
        self.extra = {}
        self.findings = load_findings()
        os.makedirs(os.path.join(VERIF, "replays"), exist_ok=True)
        os.makedirs(os.path.join(VERIF, "evidence"), exist_ok=True)

    # ------------------------------------------------------------- (a) model
    def model(self, module, cfg, workers=16, timeout=3000, expect_violation=None, extra=(), heap="8g",
              coverage_required=()):
        """exhaustive / simulation TLC run of a model configuration.  A violated invariant here means the
        *design* (the specification) breaks the property: that is a machinery failure, not a code verdict."""
        ex = list(extra)
        if coverage_required:
            ex += ["-coverage", "1"]
        r = tlc.run(module, cfg, workers=workers, timeout=timeout, extra=ex, heap=heap,
                    tag="%s-%s-%d" % (self.prop, os.path.basename(cfg), os.getpid()))
        if (r["error"] or not r["finished"]) and not r["violated"]:
            # a TLC process that died (memory pressure on a shared machine) is run once more before it counts
            r = tlc.run(module, cfg, workers=workers, timeout=timeout, extra=ex, heap=heap,
                        tag="%s-%s-%d-r" % (self.prop, os.path.basename(cfg), os.getpid()))
        rec = {"module": module, "cfg": cfg, "distinct": r["distinct"], "generated": r["generated"],
               "depth": r["depth"], "wall_s": round(r["wall_s"], 1), "violated": r["violated"]}
        self.models.append(rec)
        if r["error"]:
            raise Machinery("TLC error in %s/%s:\n%s" % (module, cfg, r["error"]))
        if expect_violation is not None:
            if expect_violation not in r["violated"]:
                raise Machinery("%s/%s: expected TLC to find a violation of %s (non-vacuity), got %s"
                                % (module, cfg, expect_violation, r["violated"]))
            return r
        if r["violated"]:
            raise Machinery("specification %s/%s violates %s - the model, not the code, is wrong:\n%s"
                            % (module, cfg, r["violated"], r["out"][-2500:]))
        if not r["finished"]:
            raise Machinery("TLC did not finish %s/%s:\n%s" % (module, cfg, r["out"][-1500:]))
        if coverage_required:
            cov = tlc.coverage_counts(r["out"])
            for a in coverage_required:
                if cov.get(a, (0, 0))[1] == 0:
                    raise Machinery("vacuity guard: action %s never taken in %s/%s" % (a, module, cfg))
            rec["coverage"] = {a: cov.get(a, (0, 0))[1] for a in coverage_required}
        self.states += r["distinct"]
        self.transitions += r["generated"]
        return r

    # ----------------------------------------------------- (b) trace validation
    def validate(self, module, cfg, traces, tag, sig=None, nontrivial=None, shards=16, deque=False,
                 expect_reject=False):
        """validate traces recorded from the real code; returns list of verdicts"""
        verdicts, st = tracecheck.validate(module, cfg, traces, "%s-%s-%d" % (self.prop, tag, os.getpid()), shards=shards,
                                           deque=deque)
        self.states += st["distinct"]
        self.transitions += st["generated"]
        if expect_reject:
            return verdicts
        for tr, v in zip(traces, verdicts):
            self.evaluations += 1
            self.traces += 1
            self.trace_events += len(tr["ev"])
            s = (sig or default_sig)(tr)
            if nontrivial is None or nontrivial(tr):
                self.sigs.add(s)
            if len(self.samples) < 4 and (nontrivial is None or nontrivial(tr)):
                self.samples.append(sample_of(tr))
            if not v["ok"]:
                self.report(tr["meta"]["scenario"], v["why"], at=v["at"], event=(tr["ev"][v["at"] - 1] if 0 < v["at"] <= len(tr["ev"]) else None))
        return verdicts

    # ----------------------------------------------------------------- verdicts
    def report(self, scenario, clauses, at=None, event=None, kind="trace"):
        for f in self.findings:
            if finding_matches(f, self.prop, clauses, scenario):
                self.known_seen.setdefault(f["id"], f)
                return "known"
        h = hashlib.sha1(json.dumps(scenario, sort_keys=True).encode()).hexdigest()[:12]
        path = os.path.join(os.environ.get("VERIF_REPLAY_DIR", os.path.join(VERIF, "replays")), "%s-%s.json" % (self.prop, h))
        os.makedirs(os.path.dirname(path), exist_ok=True)
        with open(path, "w") as fh:
            json.dump({"property": self.prop, "scenario": scenario, "clauses": clauses, "at": at,
                       "event": event, "kind": kind}, fh, indent=1)
        self.violations.append({"replay": path, "clauses": clauses, "at": at})
        return "violation"

    # ----------------------------------------------------------------- evidence
    def finish(self):
        wall = time.time() - self.t0
        cov = {
            "states": int(self.states), "transitions": int(self.transitions),
            "traces_validated_against_impl": int(self.traces),
            "samples": self.samples[:4] if self.samples else [{"note": "no trace sampled"}],
            "evaluations": int(self.evaluations),
            "distinct_nontrivial": int(len(self.sigs)),
            "rule": self.rule,
            "trace_events": int(self.trace_events),
            "models": self.models,
            "exhaustive": bool(self.exhaustive),
            "known_findings_seen": sorted(self.known_seen),
        }
        cov.update(self.extra)
        ev = {"property_id": self.prop, "tier": self.tier, "seed": int(self.seed), "level": self.level,
              "coverage": cov, "assumptions": self.assumptions, "wall_s": round(wall, 2),
              "violations": len(self.violations)}
        evdir = os.environ.get("VERIF_EVIDENCE_DIR", os.path.join(VERIF, "evidence"))
        os.makedirs(evdir, exist_ok=True)
        with open(os.path.join(evdir, "%s.json" % self.prop), "w") as fh:
            json.dump(ev, fh, indent=1)
        for fid, f in sorted(self.known_seen.items()):
            print("KNOWN-FINDING: property=%s %s %s" % (self.prop, fid, f["what"]))
        for v in self.violations[:20]:
            print("VIOLATION property=%s replay=%s" % (self.prop, v["replay"]))
            print("   clause: %s (event %s)" % ("; ".join(v["clauses"]), v["at"]))
        print("%s %s: %d model states, %d traces (%d events) validated, %d distinct non-trivial, %d violations, %.1fs"
              % (self.prop, self.tier, self.states, self.traces, self.trace_events, len(self.sigs),
                 len(self.violations), wall))
        return 1 if self.violations else 0


def default_sig(tr):
    h = hashlib.sha1()
    for e in tr["ev"]:
        if e["ev"] in ("tx", "rx"):
            d = e.get("data") or []
            h.update(("%s%s%x.%d.%d|" % (e["ev"], e["node"], (e["id"] >> 8) & 0x3FFFF, d[0] if d else -1, len(d))).encode())
        elif e["ev"] in ("api", "cb", "jobdead", "spin", "lost"):
            h.update(("%s%s%s|" % (e["ev"], e["node"], e.get("op", e.get("pgn", "")))).encode())
    return h.hexdigest()


def sample_of(tr):
    sc = tr["meta"]["scenario"]
    s = json.loads(json.dumps(sc))
    for x in s.get("sends", []):
        if "data" in x and len(x["data"]) > 16:
            x["data"] = x["data"][:16] + ["...%d bytes" % len(x["data"])]
    evs = [e for e in tr["ev"] if e["ev"] in ("tx", "cb", "api")][:6]
    short = []
    for e in evs:
        e2 = {k: v for k, v in e.items() if k in ("ev", "node", "t", "op", "id", "pgn", "ret")}
        if "data" in e:
            e2["data"] = e["data"][:12]
        short.append(e2)
    return {"scenario": s, "events": len(tr["ev"]), "first_events": short}


def main(run_fn, prop, level="model_checking"):
    import argparse
    ap = argparse.ArgumentParser()
    ap.add_argument("--tier", default=os.environ.get("VERIF_TIER", "quick"))
    ap.add_argument("--replay", default=None)
    a = ap.parse_args()
    seed = int(os.environ.get("VERIF_SEED", "0"))
    chk = Check(prop, a.tier, seed, level)
    try:
        run_fn(chk, a.replay)
        rc = chk.finish()
    except (Machinery, tlc.TlcError) as e:
        print("MACHINERY-FAILURE %s: %s" % (prop, e))
        sys.exit(2)
    except Exception:
        traceback.print_exc()
        print("MACHINERY-FAILURE %s: unexpected exception in the checker" % prop)
        sys.exit(2)
    sys.exit(rc)
