"""C05 - messages reach only the addressed applications; foreign traffic is ignored.

(a) TLC: Dispatch.tla (49 152 configuration x frame pairs: OnlyAddressed, BroadcastToAll (in Expected),
    NoAddressNoDelivery, ForeignIsInert), DispatchTp21 / DispatchTp22 (transport and multi-PG frames to owned,
    listener-owned, unowned, null and global addresses: ForeignIsInert) - complete enumerations.
(b) real stacks: a stack with 0..3 real CAs in every claim state (reached through real claim traffic, not the
    suite's accept-all CA), an unfiltered listener, CA listeners, optionally an address listener; single frames of
    every class injected as can.Message objects through the bus listener with every flag combination; all 256
    destination bytes swept; transport frames (RTS, CTS, EOM, BAM, abort, DT; FD variants, multi-PG) to owned and
    unowned addresses on both data link layers; a bystander stack watching complete transfers between two others.
    Validated by TLC against ClaimTrace / Tp21Trace / Tp22Trace.
"""
import random

import common
import gen21
import gen22
import gen_claim
import scen
import scen_claim
from gen21 import node


def tp_frames(dll, seed, n):
    """transport / multi-PG frames to owned, listener-owned, unowned, null and global addresses (static CAs)"""
    rng = random.Random(seed)
    fd = dll == "j1939-22"
    out = []
    for i in range(n):
        own = rng.sample([0x10, 0x11, 0x20], rng.randint(0, 2))
        nd = node("A", own, 700, rng.choice([1, 2, 255]))
        if rng.random() < 0.5:
            nd["lst"] = [{"tag": "i48", "kind": "int", "adr": 0x30}]
            if rng.random() < 0.5:
                nd["lst"].append({"tag": "i0", "kind": "int", "adr": 0})
        inject = []
        t = 0
        for j in range(rng.randint(1, 8)):
            t += rng.choice([0, 1000, 200000, 1300000])
            da = rng.choice(own + [0x30, 0x77, 254, 255, rng.randint(0, 255)])
            sa = rng.choice([0x41, 0x41, 0x42])
            P = 0xD000
            if not fd:
                frames = [(0xEC, [16, 20, 0, 3, 1, 0, 0xD0, 0]), (0xEC, [17, 1, 1, 255, 255, 0, 0xD0, 0]), (0xEC, [19, 20, 0, 3, 255, 0, 0xD0, 0]),
                          (0xEC, [32, 20, 0, 3, 255, 0xCA, 0xFE, 0]), (0xEC, [255, 1, 255, 255, 255, 0, 0xD0, 0]),
                          (0xEB, [1, 1, 2, 3, 4, 5, 6, 7]), (0xEB, [2, 1, 2, 3, 4, 5, 6, 7]), (0xEB, [3, 1, 2, 3, 4, 5, 6, 7])]
            else:
                def cm(ctl, size, segs, b7, b8):
                    return [ctl] + [size & 255, (size >> 8) & 255, size >> 16] + [segs & 255, (segs >> 8) & 255, segs >> 16] + [b7, b8, 0, 0xD0, 0]
                frames = [(0x4D, cm(0, 121, 3, 1, 0)), (0x4D, cm(1, 0xFFFFFF, 1, 1, 0)), (0x4D, cm(2, 121, 3, 0, 0)), (0x4D, cm(3, 121, 3, 255, 255)),
                          (0x4D, cm(4, 121, 3, 255, 0)), (0x4D, cm(15, 0xFFFFFF, 0xFFFFFF, 255, 1)),
                          (0x4E, [0, 1, 0, 0] + list(range(60))), (0x4E, [0, 2, 0, 0] + list(range(60))),
                          (0x25, [0x40, 0xD0, 0, 3, 7, 8, 9, 0]), (0xEC, [16, 20, 0, 3, 1, 0, 0xD0, 0])]
            pf, d = rng.choice(frames)
            o = {"t": t, "node": "A", "id": (7 << 26) | (pf << 16) | (da << 8) | sa, "data": d, "fd": fd}
            if pf == 0xEB and rng.random() < 0.3:
                pf = rng.choice([0xD0, 0xEF, 0x00])          # a plain destination-specific group instead, on either data page
                o["id"] = (6 << 26) | (rng.choice([0, 1]) << 24) | (pf << 16) | (da << 8) | sa
            fl = rng.random()
            if fl < 0.4:
                o["flags"] = {"ext": True, "remote": False, "error": False}
            elif fl < 0.6:
                o["flags"] = {"ext": rng.random() < 0.5, "remote": rng.random() < 0.5, "error": rng.random() < 0.5}
            inject.append(o)
        out.append({"dll": dll, "nodes": [nd], "inject": inject, "hostile": True, "sends": [], "dur": 4_000_000, "seed": seed * 1000 + i,
                    "expect": {"all": False, "idle": True, "bus": False, "dm": False}})
    return out


def ownership_lost(dll):
    """an address listener is unsubscribed in the middle of a connection-mode transfer addressed to it: the remaining
    data packets are addressed to an address nobody owns any more"""
    fd = dll == "j1939-22"
    out = []
    for k in (1, 2):
        nd = node("A", [0x10], 700, 1, lst=[{"tag": "i48", "kind": "int", "adr": 0x30}])
        if not fd:
            fr = [(0xEC, [16, 20, 0, 3, 1, 0, 0xD0, 0])] + [(0xEB, [i, 1, 2, 3, 4, 5, 6, 7]) for i in (1, 2, 3)]
        else:
            def cm(ctl, size, segs, b7, b8):
                return [ctl] + [size & 255, (size >> 8) & 255, size >> 16] + [segs & 255, (segs >> 8) & 255, segs >> 16] + [b7, b8, 0, 0xD0, 0]
            fr = [(0x4D, cm(0, 121, 3, 1, 0))] + [(0x4E, [0, i, 0, 0] + list(range(60))) for i in (1, 2)] + [(0x4E, [0, 3, 0, 0, 9])] + [(0x4D, cm(2, 121, 3, 0, 0))]
        inject = [{"t": 10000 * j, "node": "A", "id": (7 << 26) | (pf << 16) | (0x30 << 8) | 0x41, "data": d, "fd": fd} for j, (pf, d) in enumerate(fr)]
        out.append({"dll": dll, "nodes": [nd], "inject": inject, "hostile": True, "sends": [], "unsub": [{"t": 10000 * k + 5000, "node": "A", "tag": "i48"}],
                    "dur": 4_000_000, "expect": {"all": False, "idle": True, "bus": False, "dm": False}})
    return out


def bystanders(dll):
    mk = gen21.single if dll == "j1939-21" else gen22.single
    out = []
    for size, w in ((30, (2, 2)), (100, (255, 255))) if dll == "j1939-21" else ((200, (1, 2)), (700, (255, 255))):
        for pf, ps in ((0xD0, 0x20), (0xFE, 0x31)):
            sc = mk(size, w[0], w[1], 1000, 300, pf=pf, ps=ps)        # node C (0x30) only watches
            out.append(sc)
    return out


def nontrivial(tr):
    return any(e["ev"] == "cb" for e in tr["ev"]) and any(e["ev"] in ("ptx", "rx") for e in tr["ev"])


def run(chk, replay):
    chk.rule = ("stack with 0..3 CAs in 6 claim states + listeners x single frames of every class x flag combinations x "
                "destination classes, full sweeps of all 256 destination bytes, transport/multi-PG frames to owned and "
                "unowned addresses on both data link layers, bystander stacks; non-trivial = at least one delivery "
                "happened in the scenario (so that 'nothing delivered' elsewhere in it is not vacuous)")
    chk.assumptions = ["claim-state dependent configurations are exercised on the J1939-21 stack (same dispatch code path "
                       "in both stacks after the PDU2 fix); FD stacks use bypassed CAs"]
    if replay:
        sc = common.json.load(open(replay))["scenario"]
        if "ops" in sc:
            chk.validate("ClaimTrace.tla", "ClaimTrace.cfg", [scen_claim.run(sc)[0]], "replay", nontrivial=nontrivial)
        else:
            spec = "Tp21Trace" if sc.get("dll", "j1939-21") == "j1939-21" else "Tp22Trace"
            chk.validate(spec + ".tla", spec + ".cfg", [scen.run(sc)[0]], "replay", nontrivial=nontrivial)
        return
    quick = chk.tier == "quick"
    chk.model("Dispatch.tla", "Dispatch.cfg")
    chk.model("DispatchTp21.tla", "DispatchTp21.cfg", workers=4)
    chk.model("DispatchTp22.tla", "DispatchTp22.cfg", workers=4)
    chk.exhaustive = True
    scs = [gen_claim.frame_scenario(chk.seed * 86028121 + i) for i in range(300 if quick else 4000)] \
        + [gen_claim.frame_scenario(chk.seed * 7 + 1000 + i, sweep=True) for i in range(6 if quick else 40)]
    chk.validate("ClaimTrace.tla", "ClaimTrace.cfg", [scen_claim.run(sc)[0] for sc in scs], "frames", nontrivial=nontrivial)
    for dll, spec in (("j1939-21", "Tp21Trace"), ("j1939-22", "Tp22Trace")):
        scs = tp_frames(dll, chk.seed + 3, 150 if quick else 2000) + bystanders(dll) + ownership_lost(dll)
        chk.validate(spec + ".tla", spec + ".cfg", [scen.run(sc)[0] for sc in scs], "tp" + dll[-2:], nontrivial=nontrivial)


if __name__ == "__main__":
    common.main(run, "C05")
