"""C16 - diagnostic trouble codes and lamp states arrive exactly as sent (DM1, DTC, DM22).

(a) TLC: MC_Codec (DtcOk, LampOk: every field at its SAE J1939-73 position, round trip) and the vectors CodecVec
    computes (DTC: SPN single bits / boundaries x FMI x OC; all 625 lamp tuples; DM22 bytes) compared with the DTC
    class, DtcLamp and the bytes Dm22 puts on the bus.
(b) two real stacks: a DM1 sender (start_send / stop_send, several cycle times) whose callback supplies seeded
    lamp states and 1..400 trouble codes per cycle (single frame, BAM, FD multi-PG, FD BAM - the carrier follows
    from the length), a DM1 subscriber on the other stack.  Validated by TLC against Tp21Trace / Tp22Trace: transport
    conformance as in C01/C02 plus the DM1 monitor (the payload handed to send_pgn is the Codec encoding of what
    the callback supplied; the subscriber receives exactly that, in order, each cycle; the cyclic timer stays on
    its grid; after stop_send no further DM1).
"""
import random
import sys

import common
import scen
from gen21 import node
from vlib import tlc

sys.path.insert(0, common.os.environ.get("VERIF_REPO", "/repo"))
import j1939                                                        # noqa: E402

LAMP = {"off": 0, "on": 1, "slow": 2, "fast": 3, "na": 4}


def vectors(chk):
    dtcv = tlc.evaluate("CodecVec", "SetToSeq(DtcVectors)", tag="dtcv")
    lampv = tlc.evaluate("CodecVec", "SetToSeq(LampVectors)", tag="lampv")
    d22v = tlc.evaluate("CodecVec", "SetToSeq(Dm22Vectors)", tag="d22v")
    n = 0
    for v in dtcv:
        b = v["bytes"]
        word = b[0] | b[1] << 8 | b[2] << 16 | b[3] << 24
        d = j1939.DTC(spn=v["spn"], fmi=v["fmi"], oc=v["oc"])
        if d.dtc != word:
            chk.report({"kind": "dtc", "v": v}, ["DTC(spn=%d, fmi=%d, oc=%d).dtc = 0x%08X, SAE layout gives 0x%08X" % (v["spn"], v["fmi"], v["oc"], d.dtc, word)], kind="vector")
        p = j1939.DTC(dtc=word)
        if (p.spn, p.fmi, p.oc, p.cm) != (v["spn"], v["fmi"], v["oc"], 0):
            chk.report({"kind": "dtc", "v": v}, ["DTC(dtc=0x%08X) parses to spn %d fmi %d oc %d" % (word, p.spn, p.fmi, p.oc)], kind="vector")
        n += 1
    for v in lampv:
        st = {"pl": LAMP[v["pl"]], "awl": LAMP[v["awl"]], "rsl": LAMP[v["rsl"]], "mil": LAMP[v["mil"]]}
        got = j1939.DtcLamp().get_data(dict(st))
        if list(got) != v["bytes"]:
            chk.report({"kind": "lamp", "v": v}, ["lamp bytes %r for %r, SAE layout gives %r" % (got, st, v["bytes"])], kind="vector")
        back = {k: j1939.DtcLamp().get_status((v["bytes"][0] >> (2 * i)) & 3, (v["bytes"][1] >> (2 * i)) & 3)
                for i, k in enumerate(["pl", "awl", "rsl", "mil"])}
        if back != st:
            chk.report({"kind": "lamp", "v": v}, ["lamp bytes %r decode to %r, expected %r" % (v["bytes"], back, st)], kind="vector")
        n += 1
    for v in d22v:
        sent = []

        class FakeCa:
            def send_pgn(self, dp, pf, ps, prio, data, **kw):
                sent.append((dp, pf, ps, prio, list(data)))
        d22 = j1939.Dm22(FakeCa())
        (d22.request_clear_act_dtc if v["ctl"] == 17 else d22.request_clear_pa_dtc)(0x33, v["spn"], v["fmi"])
        if not sent or sent[0][4] != v["bytes"] or (sent[0][1], sent[0][2]) != (0xC3, 0x33):
            chk.report({"kind": "dm22", "v": v}, ["DM22 request bytes %r, SAE layout gives %r" % (sent and sent[0][4], v["bytes"])], kind="vector")
        n += 1
    chk.extra["tlc_vectors"] = n
    chk.samples += [dtcv[3], lampv[7], d22v[2]]
    return n


def dm1_scenario(seed, dll, ndtc=None, cycle=None, stop=True, overrun=False, restart=False):
    rng = random.Random(seed)
    fd = dll == "j1939-22"
    nodes = [node("A", [0x10], rng.choice([1, 900]), rng.choice([1, 3])), node("B", [0x20], rng.choice([1, 700]), 1),
             node("C", [0x30], 400, 1)]
    ncyc = rng.randint(1, 3)        # different messages in successive cycles
    seq = []
    for c in range(ncyc):
        n = ndtc if ndtc is not None else rng.choice([1, 1, 2, 3, 14, 15, 16, rng.randint(1, 60)])
        dtcs = [{"spn": rng.choice([0, 1, 0xFFFF, 0x10000, 0x7FFFF, rng.getrandbits(19)]), "fmi": rng.randint(0, 31),
                 "oc": rng.choice([0, 1, 127, rng.randint(0, 127)])} for _ in range(n)]
        lamps = {k: rng.randint(0, 4) for k in ("pl", "awl", "rsl", "mil")}
        seq.append({"lamps": lamps, "dtcs": dtcs})
    nmax = max(len(x["dtcs"]) for x in seq)
    size = 2 + 4 * nmax
    # one transfer must be over before the next cycle starts (BAM: 50 ms per packet; FD: 10 ms per segment)
    need = ((size + 6) // 7 + 2) * 51000 if not fd else ((size + 59) // 60 + 3) * 11000
    cyc = cycle or rng.choice([100000, 250000, 1000000])
    if not overrun:
        cyc = max(cyc, ((need // 50000) + 2) * 50000) if size > (60 if fd else 8) else cyc
    # (overrun: the cycle is shorter than one transfer - the transport layer refuses the DM1 of a cycle that starts
    # while the previous one is still on the bus; that cycle is skipped, the following ones go on)
    ncalls = rng.randint(1, 4)
    start = rng.choice([0, 1234, 500000])
    stop_t = start + cyc * ncalls + cyc // 2 if stop else None
    dur = (cyc * (ncalls + 2) if stop else cyc * ncalls + 100) + need + 500000
    sender = {"node": "A", "ca": 0x10, "cycle": cyc, "start": start, "stop": stop_t, "seq": seq, "inplace": rng.random() < 0.4}
    if restart and stop:
        # start_send again on the same object after stop_send (another cycle time), and stop again
        cyc2 = rng.choice([cyc, cyc + 50000, 2 * cyc])
        r0 = stop_t + need + rng.choice([1000, 300000])
        sender["restart"] = [{"start": r0, "cycle": cyc2, "stop": r0 + 2 * cyc2 + cyc2 // 2}]
        dur = r0 + 4 * cyc2 + need + 500000
    return {"dll": dll, "nodes": nodes, "sends": [], "wrap_send": True, "seed": seed,
            "dm1": {"sender": sender, "receiver": {"node": "B", "ca": 0x20}},
            "dur": dur, "expect": {"all": not overrun, "idle": True, "dm1all": bool(stop)}}


def fd_(dll):
    return dll == "j1939-22"


def nontrivial(tr):
    return sum(1 for e in tr["ev"] if e["ev"] == "dm1rx") >= 1


def run(chk, replay):
    chk.rule = ("TLC vectors (DTC 30 SPN x 8 FMI x 6 OC, all 625 lamp tuples, DM22) + seeded DM1 sender/subscriber "
                "scenarios: 1..400 trouble codes per message (single frame, BAM, FD multi-PG, FD BAM), 1..3 different "
                "messages per scenario, cycle times 0.1..1 s, start/stop/start-again histories, cycles shorter than one transfer (refused, skipped), both data link layers; "
                "non-trivial = at least one DM1 reached the subscriber")
    chk.assumptions = ["one DM1 sender and one DM1 subscriber per scenario", "virtual clock; wake latency 1 us"]
    if replay:
        sc = common.json.load(open(replay))["scenario"]
        if "dll" in sc:
            spec = "Tp21Trace" if sc["dll"] == "j1939-21" else "Tp22Trace"
            chk.validate(spec + ".tla", spec + ".cfg", [scen.run(sc)[0]], "replay", nontrivial=nontrivial)
        else:
            vectors(chk)
        return
    quick = chk.tier == "quick"
    chk.model("MC_Codec.tla", "MC_Codec.cfg", workers=4)
    vectors(chk)
    for dll, spec in (("j1939-21", "Tp21Trace"), ("j1939-22", "Tp22Trace")):
        scs = [dm1_scenario(chk.seed * 611953 + i, dll) for i in range(60 if quick else 600)]
        for n in ([1, 2, 14, 15, 100, 400] if quick else [1, 2, 3, 13, 14, 15, 16, 60, 100, 255, 399, 400]):
            scs.append(dm1_scenario(chk.seed + n, dll, ndtc=n))
        scs.append(dm1_scenario(chk.seed + 5, dll, ndtc=1, cycle=100000, stop=False))
        for i in range(6 if quick else 60):
            scs.append(dm1_scenario(chk.seed * 15485863 + i, dll, restart=True))
        for n in (10, 30):
            scs.append(dm1_scenario(chk.seed + n, dll, ndtc=n, cycle=200000 if not fd_(dll) else 20000, overrun=True))
        traces = [scen.run(sc)[0] for sc in scs]
        chk.validate(spec + ".tla", spec + ".cfg", traces, "dm1" + dll[-2:], nontrivial=nontrivial)


if __name__ == "__main__":
    common.main(run, "C16")
