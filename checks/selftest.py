"""binding self-test (run by bin/setup and recorded in out/selftest.json): the trace specifications really constrain
what the code does.  For every trace specification a few good traces of the real code are recorded and accepted; then
each is corrupted in one place - one byte of one transmitted frame flipped, one transmitted frame / callback / timer
firing deleted, one return value changed - and TLC must REJECT every corrupted trace.  A specification that accepted a
corrupted trace would be vacuous (constraining only length); that is a machinery failure (exit 2)."""
import copy
import json
import os
import random
import sys

import common
import gen21
import gen22
import gen_claim
import gen_dm14
import scen
import scen_claim
import scen_dm14
import scen_timers
from vlib import tracecheck
import c12


def mutants(tr, rng, kinds, n=6):
    """corrupted copies of a trace: [(description, trace)]"""
    out = []
    idx = [i for i, e in enumerate(tr["ev"]) if e["ev"] in kinds]
    rng.shuffle(idx)
    for i in idx[:n]:
        e = tr["ev"][i]
        t2 = copy.deepcopy(tr)
        if e.get("data") and rng.random() < 0.6:
            j = rng.randrange(len(e["data"]))
            t2["ev"][i]["data"][j] ^= 1 << rng.randrange(8)
            out.append(("%s event %d: one bit of data byte %d flipped" % (e["ev"], i + 1, j), t2))
        elif "ret_bytes" in e and e["ret_bytes"]:
            t2["ev"][i]["ret_bytes"][0] ^= 1
            out.append(("return value of event %d changed" % (i + 1), t2))
        else:
            del t2["ev"][i]
            out.append(("%s event %d deleted" % (e["ev"], i + 1), t2))
    return out


def main():
    rng = random.Random(int(os.environ.get("VERIF_SEED", "0")))
    plan = []

    def rec(spec, runner, scs, kinds):
        trs = []
        for sc in scs:
            try:
                trs.append(runner(sc)[0])
            except Exception as e:           # the tree under test may be broken: that is for the checks to report, not for setup
                print("selftest: %s scenario not recorded (%s)" % (spec, type(e).__name__))
        plan.append((spec, trs, kinds))
    rec("Tp21Trace", scen.run, [gen21.single(30, 2, 2, 800, 900, third=False), gen21.single(20, 1, 1, 500, 500, pf=0xFE, ps=0x10, third=False)], {"tx", "cb"})
    rec("Tp22Trace", scen.run, [gen22.single(150, 2, 2, 800, 900, third=False), gen22.single(100, 1, 1, 500, 500, pf=0xFE, ps=0x10, third=False)], {"tx", "cb"})
    rec("TimersTrace", scen_timers.run, [s for s in (c12.history(1000 + i) for i in range(12)) if c12.bounded(s)][:3], {"timer", "cb"})
    rec("ClaimTrace", scen_claim.run, [gen_claim.claim_scenario(7 + i, nca=3, sends=True) for i in range(3)], {"tx"})
    rec("Dm14Trace", scen_dm14.run, [gen_dm14.good(5 + i, nops=2, sizes=[3, 20]) for i in range(3)], {"send", "ret"})
    report = {}
    failed = False
    for spec, good, kinds in plan:
        v, _ = tracecheck.validate(spec + ".tla", spec + ".cfg", good, "self-%s-%d" % (spec, os.getpid()), shards=4)
        if not all(x["ok"] for x in v):
            # a rejected trace of the tree under test is a matter for the property checks (they report it); here only the
            # accepted ones are used
            print("selftest: %s rejects %d of %d recorded traces of the tree under test (left to the checks)" % (spec, sum(not x["ok"] for x in v), len(v)))
            good = [t for t, x in zip(good, v) if x["ok"]]
        muts = []
        for tr in good:
            muts += mutants(tr, rng, kinds)
        v, _ = tracecheck.validate(spec + ".tla", spec + ".cfg", [m[1] for m in muts], "selfm-%s-%d" % (spec, os.getpid()), shards=8)
        acc = [m[0] for m, x in zip(muts, v) if x["ok"]]
        report[spec] = {"accepted_traces": len(good), "corrupted": len(muts), "rejected": len(muts) - len(acc), "accepted_corrupted": acc}
        if acc:
            print("MACHINERY-FAILURE selftest: %s accepts corrupted traces: %s" % (spec, acc[:3]))
            failed = True
    os.makedirs(os.path.join(common.VERIF, "out"), exist_ok=True)
    json.dump(report, open(os.path.join(common.VERIF, "out", "selftest.json"), "w"), indent=1)
    print("selftest: " + "; ".join("%s %d/%d corrupted traces rejected" % (k, r["rejected"], r["corrupted"]) for k, r in report.items()))
    sys.exit(2 if failed else 0)


if __name__ == "__main__":
    main()
