"""C13 - a controller application sends application data only from an address it holds.

(a) TLC: Claim.tla with TrySend(entry point) enabled in EVERY state of every claim history (not started, waiting
    for veto, operational, moved after losing, cannot-claim): GuardedSend (raises unless operational; only a
    request for the address-claim PGN may go out, from 254) and SaHeld (every emitted frame is a claim /
    cannot-claim / request-for-claim from 254 or comes from the address the CA holds at that moment).
(b) real CAs: seeded claim histories (incl. bypassed CAs) with send_pgn / send_message / send_request calls at
    seeded instants in every state, every PGN incl. the address-claim PGN and look-alikes (0x1EE00, 0xEEFF);
    validated by TLC against ClaimTrace.tla: raises-or-not and the exact frame per CaCore, plus the SaOk monitor
    on every frame on the bus.
"""
import random

import common
import gen_claim
import scen_claim


def bypass_scenarios(seed, n):
    rng = random.Random(seed)
    out = []
    for i in range(n):
        nodes = [{"name": "A", "lat": 700, "cas": [{"pref": rng.choice([0x10, 200, 253]), "aac": rng.choice([0, 1]), "bypass": True,
                                                  "name": gen_claim.rand_name(rng)}]},
                 {"name": "B", "lat": rng.choice([0, 900]), "cas": [{"pref": None, "aac": 0, "name": {"identity_number": 77}}]}]
        ops = []
        for _ in range(rng.randint(1, 5)):
            node = rng.choice(["A", "B"])
            t = rng.randint(0, 700000)
            ops.append(rng.choice([
                {"t": t, "node": node, "op": "send_pgn", "ca": 1, "dp": 0, "pf": 0xFE, "ps": 0xCA, "prio": 6, "data": [1, 2, 3, 4]},
                {"t": t, "node": node, "op": "send_message", "ca": 1, "prio": 3, "pgn": 0xF004, "data": [9]},
                {"t": t, "node": node, "op": "send_request", "ca": 1, "dp": 0, "pgn": rng.choice([0xEE00, 0xFECA]), "dest": 255}]))
        ops.append({"t": 100000, "node": "B", "op": "start", "ca": 1, "delay": 0})       # no preferred address: never claims
        if i % 2:
            # the bypassed CA (it owns its address without ever having been started) loses it to a lower NAME at 0.35 s:
            # from then on it must not send from that address any more
            pref = nodes[0]["cas"][0]["pref"]
            ops.append({"t": 350000, "node": "A", "op": "inject", "id": (6 << 26) | (0xEE << 16) | (0xFF << 8) | pref, "data": [0] * 8})
        out.append({"dll": "j1939-21", "nodes": nodes, "ops": ops, "dur": 1_500_000, "expect": {"settled": False}})
    return out


def nontrivial(tr):
    return any(e["ev"] == "api" and e["op"].startswith("ca_send") and "exc" in e for e in tr["ev"]) and \
        any(e["ev"] == "api" and e["op"].startswith("ca_send") and "exc" not in e for e in tr["ev"])


def run(chk, replay):
    chk.rule = ("seeded claim histories of 2..4 CAs with 2..8 send_pgn/send_message/send_request calls at seeded "
                "instants (before start, inside the veto wait, operational, after losing, cannot-claim), bypassed CAs and "
                "CAs without preferred address; non-trivial = some call raised and some call put a frame on the bus")
    chk.assumptions = ["application data <= 8 bytes (the guard is the same code path for longer messages)"]
    if replay:
        sc = common.json.load(open(replay))["scenario"]
        chk.validate("ClaimTrace.tla", "ClaimTrace.cfg", [scen_claim.run(sc)[0]], "replay", nontrivial=nontrivial)
        return
    quick = chk.tier == "quick"
    chk.model("MC_Claim3.tla", "MC_Claim3.cfg")
    chk.model("MC_Claim2.tla", "MC_Claim2.cfg")
    scs = [gen_claim.claim_scenario(chk.seed * 32452843 + i, sends=True) for i in range(350 if quick else 5000)] \
        + bypass_scenarios(chk.seed, 60 if quick else 600)
    scs = scs + gen_claim.reactive(chk.tier)       # applications that call into their CA from inside a delivery callback
    traces = [scen_claim.run(sc)[0] for sc in scs]
    chk.validate("ClaimTrace.tla", "ClaimTrace.cfg", traces, "main", nontrivial=nontrivial)


if __name__ == "__main__":
    common.main(run, "C13")
