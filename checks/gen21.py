"""scenario generators for the J1939-21 transport checks (C01, C03, C06, C09, C10)"""
import random


def node(name, addr, lat=1000, maxc=1, **kw):
    d = {"name": name, "lat": lat, "maxc": maxc, "cas": [addr] if isinstance(addr, int) else list(addr)}
    d.update(kw)
    return d


def send(t, n, sa, pf, ps, size, prio=6, dp=0, salt=0):
    return {"t": t, "node": n, "sa": sa, "dp": dp, "pf": pf, "ps": ps, "prio": prio, "size": size, "salt": salt}


def single(size, wa, wb, la, lb, pf=0xD0, ps=0x20, dll="j1939-21", third=True, dur=None, **kw):
    nodes = [node("A", 0x10, la, wa), node("B", 0x20, lb, wb)]
    if third:
        nodes.append(node("C", 0x30, 700, 1))
    if dur is None:
        npk = (size + 6) // 7
        dur = 3_000_000 + (npk * 60_000 if (ps == 255 or pf >= 240) else npk * 12_000)
    sc = {"dll": dll, "nodes": nodes, "sends": [send(0, "A", 0x10, pf, ps, size)], "dur": dur,
          "expect": {"all": True, "idle": True}}
    sc.update(kw)
    return sc


def grid_c01(tier):
    out = []
    small = list(range(0, 31))
    big = [1779, 1780, 1781, 1782, 1783, 1784, 1785]
    wins = [(1, 1), (2, 3), (255, 255), (1, 255), (255, 1), (3, 2)]
    lats = [(1000, 1000), (0, 0), (0, 1000), (5000, 0)]
    if tier == "thorough":
        small = list(range(0, 200))
        big = list(range(1700, 1786))
    for s in small:
        for w in wins:
            for L in lats:
                out.append(single(s, w[0], w[1], L[0], L[1]))
    for s in big:
        for w in (wins if tier == "thorough" else [(1, 255), (255, 3)]):
            for L in [(1000, 1000), (0, 0)]:
                out.append(single(s, w[0], w[1], L[0], L[1]))
    # broadcast: PDU2 and PDU1 to the global address
    for s in ([9, 10, 14, 15, 21, 22, 100] + ([1785] if tier == "quick" else list(range(23, 60)) + [1784, 1785])):
        for pf, ps in ((0xFE, 0x12), (0xD0, 0xFF), (0xF0, 0x00)):
            for L in [(1000, 1000), (0, 0)]:
                out.append(single(s, 1, 1, L[0], L[1], pf=pf, ps=ps))
    if tier == "thorough":
        for s in range(200, 1700, 1):
            w = wins[s % len(wins)]
            L = lats[s % len(lats)]
            out.append(single(s, w[0], w[1], L[0], L[1]))
    return out


def mixes(n, seed, dll="j1939-21", maxsize=120):
    """seeded mixes of simultaneous transfers between 2..4 stacks (1..2 CAs each) on distinct and,
    sometimes, colliding (SA,DA) pairs, both directions, broadcasts in between; per-receiver latency
    constant in [0, 5 ms] or drawn per frame (bus order per receiver is kept by the harness)"""
    rng = random.Random(seed)
    out = []
    for k in range(n):
        nn = rng.choice([2, 3, 3, 4])
        nodes = []
        addrs = {}
        for i in range(nn):
            name = "ABCD"[i]
            cas = [0x10 * (i + 1)] + ([0x10 * (i + 1) + 1] if rng.random() < 0.3 else [])
            mode = rng.random()
            if mode < 0.25:
                lat = 0
            elif mode < 0.6:
                lat = rng.choice([1, 100, 1000, 2500, 5000])
            else:
                lo = rng.choice([0, 1, 500])
                lat = [lo, rng.choice([lo + 1, 2000, 5000])]
            nodes.append(node(name, cas, lat, rng.choice([1, 1, 2, 3, 7, 255])))
            addrs[name] = cas
        sends = []
        nm = rng.randint(1, 6)
        for j in range(nm):
            src = rng.choice(list(addrs))
            sa = rng.choice(addrs[src])
            kind = rng.random()
            size = rng.choice([rng.randint(0, 8), rng.randint(9, 30), rng.randint(9, maxsize), rng.randint(9, 60)])
            if kind < 0.6:
                dst = rng.choice([x for x in addrs if x != src])
                pf, ps = rng.choice([0xD0, 0xEF, 0x00, 0xC3]), rng.choice(addrs[dst])
            elif kind < 0.8:
                pf, ps = rng.choice([0xFE, 0xFF, 0xF0]), rng.randint(0, 255)
            else:
                pf, ps = rng.choice([0xD0, 0xEF]), 0xFF
            sends.append(send(rng.choice([0, 0, rng.randint(0, 3000), rng.randint(0, 100000)]), src, sa, pf, ps,
                              size, prio=rng.randint(0, 7), dp=rng.choice([0, 0, 1]), salt=j + 1))
        out.append({"dll": dll, "nodes": nodes, "sends": sends, "seed": seed * 1000 + k,
                    "dur": 4_000_000 + 60_000 * (maxsize // 7 + 2), "expect": {"all": True, "idle": True}})
    return out
