"""scenarios with the reference peer (C03, C09): the stack as originator and as responder, both DLLs"""
import itertools
import random
from gen21 import node, send

PEER = 0x50


def stack_to_peer(dll, size, maxc, script=None, seed=0, bam=False, bamInt=None, cmdtInt=None, lat=700, plat=300):
    fd = dll == "j1939-22"
    seg = 60 if fd else 7
    n = node("A", [0x10], lat, maxc, bamInt=bamInt, cmdtInt=cmdtInt, paceMax=200001)
    pd = {"name": "P", "addr": PEER, "lat": plat}
    if script is not None:
        pd["script"] = list(script)
    else:
        pd["seed"] = seed
    nseg = (size + seg - 1) // seg
    bi = bamInt if bamInt is not None else (10000 if fd else 50000)
    dur = 4_000_000 + (nseg * (bi + 1000) if bam else nseg * 250_000 + (nseg // 1 + 4) * 500_000)
    s = send(0, "A", 0x10, 0xFE if bam else 0xD5, 0x33 if bam else PEER, size)
    return {"dll": dll, "nodes": [n, node("B", [0x20], 900, 2)], "peers": [pd], "sends": [s], "dur": dur,
            "expect": {"all": True, "idle": True}}


def peer_to_stack(dll, size, maxc, script=None, seed=0, bam=False, lat=700, plat=300):
    fd = dll == "j1939-22"
    seg = 60 if fd else 7
    n = node("A", [0x10], lat, maxc, paceMax=200001)
    pd = {"name": "P", "addr": PEER, "lat": plat}
    if script is not None:
        pd["script"] = list(script)
    else:
        pd["seed"] = seed
    nseg = (size + seg - 1) // seg
    dur = 4_000_000 + nseg * 360_000
    ps = {"t": 0, "peer": "P", "da": 255 if bam else 0x10, "pf": 0xFE if bam else 0xD6, "ps": 0x44, "size": size, "salt": 3}
    return {"dll": dll, "nodes": [n, node("B", [0x20], 900, 2)], "peers": [pd], "psends": [ps], "dur": dur,
            "expect": {"all": True, "idle": True}}


def exhaustive_small(dll, depth):
    """every sequence of the peer's first `depth` free choices, for 2..4 packet transfers, both roles"""
    fd = dll == "j1939-22"
    seg = 60 if fd else 7
    out = []
    for npk in (2, 3, 4):
        size = seg * npk - (seg // 2) + (2 if fd else 0)
        if not fd:
            size = max(size, 9)
        for script in itertools.product(range(4), repeat=depth):
            out.append(stack_to_peer(dll, size, 255 if npk != 3 else 2, script=script))
            out.append(peer_to_stack(dll, size, 255 if npk != 4 else 3, script=script))
    return out


def seeded(dll, n, seed):
    rng = random.Random(seed)
    fd = dll == "j1939-22"
    lo, hi = (61, 1500) if fd else (9, 400)
    out = []
    for i in range(n):
        size = rng.choice([lo, lo + 1, rng.randint(lo, lo + 3 * (60 if fd else 7)), rng.randint(lo, hi),
                           1785 if (not fd and rng.random() < 0.1) else rng.randint(lo, hi)])
        maxc = rng.choice([1, 2, 3, 5, 16, 254, 255])
        k = rng.random()
        lat = rng.choice([0 if not fd else 1, 1, 700, 5000])
        if k < 0.35:
            out.append(stack_to_peer(dll, size, maxc, seed=seed * 7919 + i, lat=lat,
                                     cmdtInt=rng.choice([None, None, 1000, 20000, 50000])))
        elif k < 0.7:
            out.append(peer_to_stack(dll, size, maxc, seed=seed * 7919 + i, lat=lat))
        elif k < 0.85:
            out.append(stack_to_peer(dll, min(size, 400 if not fd else 1500), maxc, seed=seed * 7919 + i, bam=True, lat=lat,
                                     bamInt=rng.choice([None, 10000, 50000, 100000, 190000])))
        else:
            out.append(peer_to_stack(dll, min(size, 300 if not fd else 1500), maxc, seed=seed * 7919 + i, bam=True, lat=lat))
    return out
