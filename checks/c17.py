"""C17 - DM14 memory access returns and stores exactly the addressed data.

(a) TLC: Dm14.tla (reference model Dm14Core lifted to actions) with and without seed/key: ServerToldTheRequest,
    Outcome (a read returns exactly the bytes the application supplied), WriteStoresWritten, BothIdleAfter.
(b) real MemoryAccess objects on a client and a serving stack: data lengths 1..255 bytes (single-frame DM16 up to 7
    bytes, exactly 8, multi-packet above), object sizes 1/2/4/8, unsigned values over their full range on write,
    signed/unsigned, raw/converted on read, 32-bit pointers, direct/spatial, seed/key on/off with arbitrary seeds,
    several transactions back to back (also on the same objects), latencies (0, 5 ms]; recorded at parameter-group
    level and validated by TLC against Dm14Trace.tla.
"""
import common
import gen_dm14
import scen_dm14


def nontrivial(tr):
    return any(e["ev"] == "ret" and e["node"] == "C" and "exc" not in e for e in tr["ev"])


def run(chk, replay):
    chk.rule = ("seeded histories of 1..4 successful reads/writes (lengths from {1,2,6,7,8,9,14,15,16,255,random}, object "
                "sizes 1/2/4/8, boundary and random values, pointers incl. 0 and 0xFFFFFFFF, seed/key on/off) + one scenario "
                "per data length 1..255 (thorough) / boundary lengths (quick); non-trivial = an operation returned normally")
    chk.assumptions = ["the serving application answers from another thread after it was notified (scripted delay)",
                       "virtual clock; J1939-21 stacks with max_cmdt_packets 255"]
    if replay:
        sc = common.json.load(open(replay))["scenario"]
        chk.validate("Dm14Trace.tla", "Dm14Trace.cfg", [scen_dm14.run(sc)[0]], "replay", nontrivial=nontrivial)
        return
    quick = chk.tier == "quick"
    chk.model("MC_Dm14.tla", "MC_Dm14.cfg")
    chk.model("MC_Dm14.tla", "MC_Dm14_nosec.cfg")
    scs = [gen_dm14.good(chk.seed * 1299709 + i) for i in range(150 if quick else 2500)]
    lens = [1, 2, 6, 7, 8, 9, 13, 14, 15, 16, 63, 64, 254, 255] if quick else list(range(1, 256))
    for n in lens:
        scs.append(gen_dm14.good(chk.seed + 7000 + n, nops=2, sizes=[n, n]))
    traces = [scen_dm14.run(sc)[0] for sc in scs]
    chk.validate("Dm14Trace.tla", "Dm14Trace.cfg", traces, "main", nontrivial=nontrivial)


if __name__ == "__main__":
    common.main(run, "C17")
