"""C15 - identifier and NAME codecs are exact inverses on their whole domain.

The pure bit-field codecs are at the edge of what a state-machine specification decides; they are handled the way
a self-contained function with rich case analysis is: the SAE layouts are TLA+ DATA (Codec.tla: IdLayout,
NameLayout, MkId, NameField, NameLess), the module is model-checked itself (MC_Codec: fields disjoint, cover 29 / 64
bits, compose/parse round trip), and TLC is the oracle:
 (1) TLC computes vectors (CodecVec.tla): every field over boundary values and single bits on all-zero / all-one
     backgrounds; one bit walking over the 64 NAME positions on three backgrounds, from fields / value / bytes;
     NameLess order pairs.  MessageId, ParameterGroupNumber and Name are compared with them in both directions.
 (2) TLC exports the layout tables; a generic interpreter of the tables is first validated against ALL TLC vectors,
     then used as oracle for the whole-domain sweeps: all 2^18 PGN field values, 2^29 identifiers (thorough: all;
     quick: 2^21 structured + seeded), 10^5 (thorough 10^6) seeded NAMEs.
"""
import random
import sys
import time
from multiprocessing import Pool

import common
from vlib import tlc

sys.path.insert(0, common.os.environ.get("VERIF_REPO", "/repo"))
import j1939                                                        # noqa: E402

ID_T = NAME_T = None


def compose(table, fields):
    v = 0
    for e in table:
        v |= (fields[e["f"]] & ((1 << e["w"]) - 1)) << e["lo"]
    return v


def parse(table, v):
    return {e["f"]: (v >> e["lo"]) & ((1 << e["w"]) - 1) for e in table}


def check_id(i, table):
    """returns None or a description of the disagreement for identifier i"""
    f = parse(table, i)
    m = j1939.MessageId(can_id=i)
    pgn18 = (f["edp"] << 17) | (f["dp"] << 16) | (f["pf"] << 8) | f["ps"]
    if (m.priority, m.parameter_group_number, m.source_address) != (f["prio"], pgn18, f["sa"]):
        return "MessageId(can_id=0x%X) parses to (%r, 0x%X, %r)" % (i, m.priority, m.parameter_group_number, m.source_address)
    if m.can_id != i:
        return "MessageId(can_id=0x%X).can_id = 0x%X" % (i, m.can_id)
    m2 = j1939.MessageId(priority=f["prio"], parameter_group_number=pgn18, source_address=f["sa"])
    if m2.can_id != i:
        return "MessageId(priority=%d, pgn=0x%X, sa=%d).can_id = 0x%X, expected 0x%X" % (f["prio"], pgn18, f["sa"], m2.can_id, i)
    return None


def check_pgn(mid_pgn18):
    """ParameterGroupNumber against the numeric value (the EDP bit is not represented by the class)"""
    dp, pf, ps = (mid_pgn18 >> 16) & 1, (mid_pgn18 >> 8) & 0xFF, mid_pgn18 & 0xFF
    p = j1939.ParameterGroupNumber(dp, pf, ps)
    if (p.data_page, p.pdu_format, p.pdu_specific) != (dp, pf, ps) or p.value != (mid_pgn18 & 0x1FFFF):
        return "ParameterGroupNumber(%d,%d,%d) -> value 0x%X fields %r" % (dp, pf, ps, p.value, (p.data_page, p.pdu_format, p.pdu_specific))
    if p.is_pdu1_format != (pf < 240) or p.is_pdu2_format != (pf >= 240):
        return "PDU1/PDU2 classification of PF %d" % pf
    q = j1939.ParameterGroupNumber()
    q.from_message_id(j1939.MessageId(priority=0, parameter_group_number=mid_pgn18, source_address=0))
    if q.value != (mid_pgn18 & 0x1FFFF) or (q.data_page, q.pdu_format, q.pdu_specific) != (dp, pf, ps):
        return "from_message_id(pgn 0x%X) -> 0x%X" % (mid_pgn18, q.value)
    return None


NAME_ARGS = ["identity_number", "manufacturer_code", "ecu_instance", "function_instance", "function", "vehicle_system",
             "vehicle_system_instance", "industry_group", "arbitrary_address_capable"]


def name_fields(n):
    return {f: int(getattr(n, f)) for f in NAME_ARGS + ["reserved_bit"]}


def check_name(v, table):
    """v: 64-bit value; the reserved bit reads as 0 whatever the input says"""
    exp = parse(table, v)
    exp["reserved_bit"] = 0
    vclean = compose(table, exp)
    bts = list(vclean.to_bytes(8, "little"))
    for how, n in (("value", j1939.Name(value=v)), ("bytes", j1939.Name(bytes=list(v.to_bytes(8, "little")))),
                   ("fields", j1939.Name(**{f: exp[f] for f in NAME_ARGS}))):
        got = name_fields(n)
        if got != exp:
            bad = [f for f in exp if got[f] != exp[f]]
            return "Name(%s) of 0x%016X: field(s) %s differ: %r, expected %r" % (how, v, bad, {f: got[f] for f in bad}, {f: exp[f] for f in bad})
        if n.value != vclean:
            return "Name(%s) of 0x%016X: value 0x%016X, expected 0x%016X" % (how, v, n.value, vclean)
        if list(n.bytes) != bts:
            return "Name(%s) of 0x%016X: bytes %r, expected %r" % (how, v, list(n.bytes), bts)
    return None


def name_history(ops, table):
    """a history of assignments on ONE Name object (fields through their setters, value, bytes), all three views read
    back after every step: they must describe the same 64 bits at all times.  Returns None or a description."""
    v0 = ops[0][1]
    n = j1939.Name(value=v0)
    exp = parse(table, v0)
    exp["reserved_bit"] = 0
    for k, op in enumerate(ops):
        if k == 0:
            pass
        elif op[0] == "set":
            setattr(n, op[1], op[2])
            exp[op[1]] = op[2]
        elif op[0] == "value":
            n.value = op[1]
            exp = parse(table, op[1])
            exp["reserved_bit"] = 0
        else:
            n.bytes = list(op[1].to_bytes(8, "little"))
            exp = parse(table, op[1])
            exp["reserved_bit"] = 0
        want = compose(table, exp)
        for rep in range(2):                 # read twice: a cached view must not go stale
            got = name_fields(n)
            if got != exp:
                return "after step %d (%r): fields %r, expected %r" % (k, op[:2], got, exp)
            if n.value != want:
                return "after step %d (%r): value 0x%016X, expected 0x%016X" % (k, op[:2], n.value, want)
            if list(n.bytes) != list(want.to_bytes(8, "little")):
                return "after step %d (%r): bytes %r, expected %r" % (k, op[:2], list(n.bytes), list(want.to_bytes(8, "little")))
    return None


def gen_name_history(rng, table):
    ops = [("init", rng.getrandbits(64))]
    for _ in range(rng.randint(1, 7)):
        k = rng.random()
        if k < 0.7:
            e = rng.choice([x for x in table if x["f"] != "reserved_bit"])
            ops.append(("set", e["f"], rng.choice([0, 1, (1 << e["w"]) - 1, rng.randrange(1 << e["w"])])))
        elif k < 0.85:
            ops.append(("value", rng.getrandbits(64) & ~(1 << 48)))      # (what an assigned reserved bit reads as is not specified)
        else:
            ops.append(("bytes", rng.getrandbits(64) & ~(1 << 48)))
    return ops


def id_history(ops, table):
    """assignments on ONE MessageId object (can_id, priority, parameter_group_number, source_address)"""
    m = j1939.MessageId(can_id=ops[0][1])
    f = parse(table, ops[0][1])
    for k, op in enumerate(ops):
        if k and op[0] == "can_id":
            m.can_id = op[1]
            f = parse(table, op[1])
        elif k:
            setattr(m, op[0], op[1])
            if op[0] == "priority":
                f["prio"] = op[1]
            elif op[0] == "source_address":
                f["sa"] = op[1]
            else:
                f.update(edp=(op[1] >> 17) & 1, dp=(op[1] >> 16) & 1, pf=(op[1] >> 8) & 255, ps=op[1] & 255)
        want = compose(table, f)
        pgn18 = (f["edp"] << 17) | (f["dp"] << 16) | (f["pf"] << 8) | f["ps"]
        if m.can_id != want or (m.priority, m.parameter_group_number, m.source_address) != (f["prio"], pgn18, f["sa"]):
            return "after step %d (%r): can_id 0x%X / (%r, 0x%X, %r), expected 0x%X" % (k, op, m.can_id, m.priority, m.parameter_group_number, m.source_address, want)
    return None


def gen_id_history(rng):
    ops = [("can_id", rng.getrandbits(29))]
    for _ in range(rng.randint(1, 5)):
        k = rng.choice(["can_id", "priority", "parameter_group_number", "source_address"])
        ops.append((k, {"can_id": rng.getrandbits(29), "priority": rng.choice([0, 7, rng.randrange(8)]),
                        "parameter_group_number": rng.choice([0, 0x3FFFF, rng.getrandbits(18)]),
                        "source_address": rng.choice([0, 255, rng.randrange(256)])}[k]))
    return ops


def sweep_ids(args):
    lo, hi, step, table = args
    for i in range(lo, hi, step):
        r = check_id(i, table)
        if r:
            return r
    return None


def run(chk, replay):
    chk.level = "exploration"
    chk.rule = ("TLC-computed vectors (1248 identifier tuples, 195 NAME images, 192 order pairs) in both directions, then "
                "whole-domain sweeps against the TLC-exported layout tables: all 2^18 PGNs, identifiers (quick: 2^21 "
                "structured + seeded; thorough: all 2^29), seeded NAMEs, seeded histories of assignments on one Name / MessageId object "
                "(fields, value, bytes / can_id read back after every step); distinct non-trivial = distinct vectors / values "
                "checked with at least two non-zero fields")
    chk.assumptions = ["not a proof over 2^64 NAMEs: a shift/mask codec that is right for a bit walking over every "
                       "position on three backgrounds, from fields, value and bytes, cannot be wrong in a single field; "
                       "plus 10^5..10^6 seeded values", "TLC integers are 32 bit: NAMEs travel as 8-byte sequences"]
    quick = chk.tier == "quick"
    chk.model("MC_Codec.tla", "MC_Codec.cfg", workers=4)
    idv = tlc.evaluate("CodecVec", "SetToSeq(IdVectors)", tag="idv")
    namev = tlc.evaluate("CodecVec", "SetToSeq(NameVectors)", tag="namev")
    orderv = tlc.evaluate("CodecVec", "SetToSeq(OrderVectors)", tag="ordv")
    id_t, name_t = tlc.evaluate("CodecVec", "<<IdLayout, NameLayout>>", tag="lay")
    if replay:
        r = common.json.load(open(replay))["scenario"]
        if r["kind"] == "namehist":
            res = name_history([tuple(o) for o in r["value"]], name_t)
        elif r["kind"] == "idhist":
            res = id_history([tuple(o) for o in r["value"]], id_t)
        else:
            res = check_id(r["value"], id_t) if r["kind"] == "id" else check_pgn(r["value"]) if r["kind"] == "pgn" else check_name(r["value"], name_t)
        if res:
            chk.report(r, [res], kind="vector")
        return
    n = 0

    def bad(kind, value, msg):
        chk.report({"kind": kind, "value": value}, [msg], kind="vector")

    # (1) TLC vectors; at the same time the table interpreter is validated against TLC (machinery self-check)
    for v in idv:
        f = v["f"]
        ff = {"prio": f["p"], "edp": f["edp"], "dp": f["dp"], "pf": f["pf"], "ps": f["ps"], "sa": f["sa"]}
        if compose(id_t, ff) != v["id"] or parse(id_t, v["id"]) != ff:
            raise common.Machinery("layout table interpreter disagrees with TLC on identifier vector %r" % v)
        r = check_id(v["id"], id_t)
        if r:
            bad("id", v["id"], r)
        n += 1
        chk.sigs.add(("id", v["id"]))
    for v in namev:
        val = int.from_bytes(bytes(v["bytes"]), "little")
        tf = {x["f"]: x["v"] for x in v["fields"]}
        if parse(name_t, val) != tf:
            raise common.Machinery("layout table interpreter disagrees with TLC on NAME vector %r" % v)
        r = check_name(val, name_t)
        if r:
            bad("name", val, r)
        n += 1
        chk.sigs.add(("name", val))
    for v in orderv:
        a = int.from_bytes(bytes(v["a"]), "little") & ~(1 << 48)
        b = int.from_bytes(bytes(v["b"]), "little") & ~(1 << 48)
        if a == b:
            continue
        na, nb = j1939.Name(value=a), j1939.Name(value=b)
        less_spec = v["less"] if (int.from_bytes(bytes(v["a"]), "little") ^ int.from_bytes(bytes(v["b"]), "little")) != (1 << 48) else (a < b)
        if (na.value < nb.value) != less_spec or (na.value > nb.value) == less_spec:
            bad("name", a, "NAME order of 0x%016X vs 0x%016X: implementation says %s, 64-bit comparison says %s" % (a, b, na.value < nb.value, less_spec))
        n += 1
    chk.samples = [idv[7], namev[5], orderv[3]]
    # (2) whole-domain sweeps against the exported tables
    for p in range(1 << 18):
        r = check_pgn(p)
        if r:
            bad("pgn", p, r)
            break
    n += 1 << 18
    rng = random.Random(chk.seed)
    if quick:
        ids = set()
        for k in range(29):
            for base in (0, (1 << 29) - 1, 0x0AAAAAAA, 0x15555555):
                ids.add(base ^ (1 << k))
        ids |= {rng.getrandbits(29) for _ in range(1 << 19)}
        ids |= set(range(0, 1 << 29, 257 * 1021))           # a coarse lattice through the whole domain
        ids |= set(range(0, 1 << 20))                        # all identifiers with priority/EDP/DP/PF-high = 0
        ids = sorted(ids)
        chunks = [(0, len(ids), 1, id_t)]
        for i in ids:
            r = check_id(i, id_t)
            if r:
                bad("id", i, r)
                break
        n += len(ids)
        chk.extra["identifiers_swept"] = len(ids)
    else:
        step = 1 << 22
        jobs = [(lo, min(lo + step, 1 << 29), 1, id_t) for lo in range(0, 1 << 29, step)]
        with Pool(16) as pool:
            for r in pool.imap_unordered(sweep_ids, jobs):
                if r:
                    bad("id", 0, r)
                    break
        n += 1 << 29
        chk.extra["identifiers_swept"] = 1 << 29
        chk.exhaustive = True
    for _ in range(100000 if quick else 1000000):
        v = rng.getrandbits(64)
        if rng.random() < 0.3:
            v &= rng.getrandbits(64)
        r = check_name(v, name_t)
        if r:
            bad("name", v, r)
            break
    n += 100000 if quick else 1000000
    # (3) histories on one object: the three views of a Name (fields, value, bytes) and the two of a MessageId stay consistent
    for _ in range(20000 if quick else 300000):
        ops = gen_name_history(rng, name_t)
        r = name_history(ops, name_t)
        if r:
            bad("namehist", [list(o) for o in ops], r)
            break
        ops = gen_id_history(rng)
        r = id_history(ops, id_t)
        if r:
            bad("idhist", [list(o) for o in ops], r)
            break
    n += 40000 if quick else 600000
    chk.evaluations = n
    chk.traces = len(idv) + len(namev) + len(orderv)
    chk.extra["explanation"] = "traces_validated_against_impl counts the TLC-computed vectors compared with the implementation"


if __name__ == "__main__":
    common.main(run, "C15", level="exploration")
