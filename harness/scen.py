"""scenario runner: a scenario (plain JSON-able dict = replay file) -> recorded trace.

scenario = {
  "dll": "j1939-21" | "j1939-22",
  "nodes": [{"name","lat" (us, int or [lo,hi] seeded), "maxc", "cas":[addr..], "bamInt": us|None,
             "cmdtInt": us|None, "lst": [{"tag","kind","adr"}] (extra ECU-level listeners)}],
  "sends": [{"t": us, "node", "sa", "dp","pf","ps","prio","data":[..] | "size": n (pattern payload)}],
  "drop": [bus frame indices], "silence": [{"node", "from": frame index}],
  "inject": [{"t", "node", "id", "data", "fd"}],         # hostile / peer frames
  "dur": us (run time after the last stimulus), "seed": int,
  "expect": {"all": bool, "idle": bool}
}
"""
import os
import random
import logging
logging.disable(logging.CRITICAL)

import vt
import peer as refpeer

T21 = {"T1": 750000, "T2": 1250000, "T3": 1250000, "Th": 500000}


def us(x):
    return int(round(x * 1e6)) - vt.EPOCH_US


def proj21(node):
    """abstract state of a J1939-21 stack, read from the objects (not logged by the code)"""
    try:
        d = node.ecu.j1939_dll
        snd = [{"key": k, "st": b["state"], "next": b["next_packet_to_send"],
                "waitOn": b.get("next_wait_on_cts", -1), "total": b["num_packages"],
                "size": b["message_size"], "dl": us(b["deadline"]), "pgn": b["pgn"]}
               for k, b in d._snd_buffer.items()]
        rcv = [{"key": k, "total": b["num_packages"], "size": b["message_size"], "n": len(b["data"]),
                "nextp": b["next_packet"], "maxrec": b.get("num_packages_max_rec", -1),
                "dl": us(b["deadline"]), "pgn": b["pgn"]}
               for k, b in d._rcv_buffer.items()]
        return {"snd": snd, "rcv": rcv, "tok": node.ecu._job_thread_wakeup_queue.n}
    except (AttributeError, KeyError, TypeError):
        return None      # refactored internals: projection omitted (reduced precision, never a verdict)


def proj22(node):
    try:
        d = node.ecu.j1939_dll
        snd = [{"key": k, "st": b["state"], "next": b["next_packet_to_send"],
                "waitOn": b.get("next_wait_on_cts", -1), "total": b["num_segments"],
                "size": b["message_size"], "dl": us(b["deadline"]), "pgn": b["pgn"], "sess": b["session"]}
               for k, b in d._snd_buffer.items()]
        rcv = [{"key": k, "total": b["num_segments"], "size": b["message_size"], "n": len(b["data"]),
                "nextp": b["next_packet"], "border": b.get("next_cts_border", -1),
                "maxrec": b.get("num_segments_max_rec", -1),
                "dl": us(b["deadline"]), "pgn": b["pgn"], "sess": b["session"]}
               for k, b in d._rcv_buffer.items()]
        mpg = [{"key": k, "fill": b["fill_level"], "n": len(b["cpg"]), "dl": us(b["deadline"])}
               for k, b in d._multi_pg_snd_buffer.items()]
        cm = [1 if x else 0 for x in d._J1939_22__rts_cts_session_list]
        bam = [1 if x else 0 for x in d._J1939_22__bam_session_list]
        return {"snd": snd, "rcv": rcv, "mpg": mpg, "poolCm": cm, "poolBam": bam,
                "tok": node.ecu._job_thread_wakeup_queue.n}
    except (AttributeError, KeyError, TypeError):
        return None


def payload(size, salt=0):
    return [(i * 7 + salt * 13 + (i >> 8)) % 256 for i in range(size)]


def build(sc):
    sim = vt.Sim(seed=sc.get("seed", 0))
    if sc.get("_install"):
        sc["_install"](sim)
    rng = random.Random(sc.get("seed", 0))
    dll = sc.get("dll", "j1939-21")
    cfg = {}
    for nd in sc["nodes"]:
        lat = nd.get("lat", 1000)
        if isinstance(lat, list):
            lo, hi = lat
            latv = (lambda fr, lo=lo, hi=hi: rng.randint(lo, hi))
        else:
            latv = lat
        kw = {"max_cmdt_packets": nd.get("maxc", 1)}
        if nd.get("bamInt") is not None:
            kw["minimum_tp_bam_dt_interval"] = nd["bamInt"] / 1e6
        if nd.get("cmdtInt") is not None:
            kw["minimum_tp_rts_cts_dt_interval"] = nd["cmdtInt"] / 1e6
        n = sim.add_node(nd["name"], latency=latv, dll=dll, **kw)
        lst = []
        if nd.get("ecu_listener", True):
            n.listen(None, tag="ecu")
            lst.append({"tag": "ecu", "kind": "all", "adr": -1})
        for a in nd.get("cas", []):
            ca = n.add_ca(a)
            n.listen_ca(ca, tag="ca%d" % a)
            lst.append({"tag": "ca%d" % a, "kind": "ca", "adr": a})
        for L in nd.get("lst", []):
            if not hasattr(sim, "listener_cbs"):
                sim.listener_cbs = {}
            sim.listener_cbs[(nd["name"], L["tag"])] = n.listen(L["adr"] if L["kind"] == "int" else None, tag=L["tag"])
            lst.append({"tag": L["tag"], "kind": L["kind"], "adr": L.get("adr", -1)})
        default_bam = 50000 if dll == "j1939-21" else 10000
        cfg[nd["name"]] = {"maxc": nd.get("maxc", 1),
                           "bamInt": nd["bamInt"] if nd.get("bamInt") is not None else default_bam,
                           "cmdtInt": nd["cmdtInt"] if nd.get("cmdtInt") is not None else -1,
                           "paceMax": nd.get("paceMax", -1),
                           "cas": list(nd.get("cas", [])), "lst": lst}
    sim.projector = proj21 if dll == "j1939-21" else proj22
    if sc.get("wrap_send"):
        # calls into ecu.send_pgn made by library services (DM1, DM14 ...) are logged like application calls
        for n in sim.nodes:
            def wrapped(dp, pf, ps, prio, sa, data, time_limit=0, frame_format=3, _n=n, _orig=n.ecu.send_pgn):
                return sim.api(_n, "send_pgn", lambda: _orig(dp, pf, ps, prio, sa, data, time_limit, frame_format),
                               dp=dp, pf=pf, ps=ps, prio=prio, sa=sa, data=list(data), tl=int(round(time_limit * 1e6)), ff=frame_format)
            n.ecu.send_pgn = wrapped
    return sim, cfg


def _finish(sc, sim):
    expect = {"all": False, "idle": False, "slack": 0, "dm": True, "free": False,
              "bus": not (sc.get("drop") or sc.get("silence") or sc.get("hostile"))}
    expect.update(sc.get("expect", {}))
    if os.environ.get("VERIF_MONITOR_ONLY"):
        expect["free"] = True            # developer switch: judge by the property monitors alone (no output prediction)
    return {"cfg": sim.cfg0, "ev": sim.trace, "expect": expect, "meta": {"scenario": sc}}, sim


def run(sc):
    """execute the scenario on the real code; returns the trace dict for validation"""
    try:
        with vt.watchdog():
            return _run(sc)
    except vt.Runaway as e:          # endless loop in a handler / events without bound: judged as a `hang` event
        sim = vt.CUR[0]
        sim.hang(e)
        return _finish(sc, sim)


def _run(sc):
    sim, cfg = build(sc)
    import copy
    cfg0 = copy.deepcopy(cfg)
    sim.cfg0 = cfg0
    drops = set(sc.get("drop", []))
    sil = {s["node"]: s["from"] for s in sc.get("silence", [])}

    def on_frame(idx, src, fr):
        for name, k in sil.items():
            if idx >= k and not sim.node(name).silent:
                sim.silence(sim.node(name))
    sim.on_frame = on_frame if sil else None
    t0 = sim.now_us
    until = sc.get("drop_until")
    sim.drop = (lambda idx, src, fr: idx in drops and (until is None or sim.now_us - t0 < until)) if drops else None

    peers = {}
    for pd in sc.get("peers", []):
        ch = refpeer.Chooser(script=pd["script"]) if "script" in pd else refpeer.Chooser(rng=random.Random(pd.get("seed", 0)))
        peers[pd["name"]] = refpeer.RefPeer(sim, pd["addr"], ch, fd=(sc.get("dll") == "j1939-22"), name=pd["name"],
                                            latency=pd.get("lat", 300), maxc=pd.get("maxc", 255))
    stim = []
    d1 = sc.get("dm1")
    if d1:
        import j1939
        snd, rcv = d1["sender"], d1["receiver"]
        ns_, nr_ = sim.node(snd["node"]), sim.node(rcv["node"])
        ca_s = [c for c in ns_.cas if c._device_address == snd["ca"]][0]
        ca_r = [c for c in nr_.cas if c._device_address == rcv["ca"]][0]
        dm_s, dm_r = j1939.Dm1(ca_s), j1939.Dm1(ca_r)
        seq = list(snd["seq"])
        cnt = [0]

        keep_l, keep_d = {}, []      # "inplace": the application keeps ONE dict and ONE list and updates them in place

        def src_cb():
            x = seq[cnt[0] % len(seq)]
            cnt[0] += 1
            if snd.get("inplace"):
                keep_l.clear()
                keep_l.update(x["lamps"])
                keep_d[:] = [dict(d) for d in x["dtcs"]]
                sim.log({"ev": "timer", "node": ns_.name, "period": snd["cycle"]})
                sim.log({"ev": "dm1src", "node": ns_.name, "lamps": dict(x["lamps"]), "dtcs": [dict(d) for d in x["dtcs"]]})
                return keep_l, keep_d
            sim.log({"ev": "timer", "node": ns_.name, "period": snd["cycle"]})
            sim.log({"ev": "dm1src", "node": ns_.name, "lamps": dict(x["lamps"]), "dtcs": [dict(d) for d in x["dtcs"]]})
            return dict(x["lamps"]), [dict(d) for d in x["dtcs"]]

        def rx_cb(sa, lamps, dtcs, ts):
            sim.log({"ev": "dm1rx", "node": nr_.name, "sa": sa, "lamps": {k: int(v) for k, v in lamps.items()},
                     "dtcs": [{"spn": int(d["spn"]), "fmi": int(d["fmi"]), "oc": int(d["oc"])} for d in dtcs]})
        dm_r.subscribe(rx_cb)
        stim.append((snd["start"], 4, ("start", dm_s, src_cb, snd)))
        if snd.get("stop") is not None:
            stim.append((snd["stop"], 4, ("stop", dm_s, src_cb, snd)))
        for rs in snd.get("restart", []):       # start_send again on the same Dm1 object (possibly another cycle time), stop again
            snd2 = dict(snd, cycle=rs.get("cycle", snd["cycle"]))
            stim.append((rs["start"], 4, ("start", dm_s, src_cb, snd2)))
            if rs.get("stop") is not None:
                stim.append((rs["stop"], 4, ("stop", dm_s, src_cb, snd2)))
    for s in sc.get("psends", []):
        stim.append((s["t"], 2, s))
    for s in sc.get("timers", []):
        stim.append((s["t"], 3, s))
    for s in sc.get("unsub", []):
        stim.append((s["t"], 5, s))
    for s in sc.get("sends", []):
        stim.append((s["t"], 0, s))
    for s in sc.get("inject", []):
        stim.append((s["t"], 1, s))
    stim.sort(key=lambda x: (x[0], x[1], 0))
    for t, kind, s in stim:
        if t0 + t > sim.now_us:
            sim.run(t0 + t - sim.now_us)
        if kind == 5:           # an ECU-level listener is unsubscribed: its address is no longer owned
            n = sim.node(s["node"])
            cbs = sim.listener_cbs[(s["node"], s["tag"])]
            n.ecu.unsubscribe(cbs)
            cfg[s["node"]] = dict(cfg[s["node"]], lst=[L for L in cfg[s["node"]]["lst"] if L["tag"] != s["tag"]])
            sim.log({"ev": "cfg", "node": s["node"], "cfg": cfg[s["node"]]})
            continue
        if kind == 4:
            what, dm_s, src_cb, snd = s
            n = sim.node(snd["node"])
            if what == "start":
                sim.api(n, "add_timer", lambda: dm_s.start_send(src_cb, snd["cycle"] / 1e6), delta=snd["cycle"])
            else:
                sim.api(n, "remove_timer", lambda: dm_s.stop_send(src_cb))
            continue
        if kind == 2:
            pr = peers[s["peer"]]
            pr.send(s["da"], s.get("dp", 0), s["pf"], s.get("ps", 0), payload(s["size"], s.get("salt", 0)),
                    prio=s.get("prio", 6), sess=s.get("sess", 0))
            continue
        n = sim.node(s["node"])
        if n.silent:
            continue
        if kind == 3:
            def tcb(cookie, n=n, s=s):
                if s.get("periodic"):           # a cyclic timer (the callback asks to be called again)
                    sim.log({"ev": "timer", "node": n.name, "period": s["delta"]})
                    return True
                sim.log({"ev": "timer", "node": n.name})
                if "send" in s:         # a submission from inside a timer callback (job thread context)
                    q = s["send"]
                    data = q["data"] if "data" in q else payload(q["size"], q.get("salt", 0))
                    tl, ff = q.get("time_limit", 0), q.get("ff", 3)
                    sim.api(n, "send_pgn", lambda: n.ecu.send_pgn(q["dp"], q["pf"], q["ps"], q["prio"], q["sa"], list(data),
                                                                  tl / 1e6 if tl else 0, ff),
                            dp=q["dp"], pf=q["pf"], ps=q["ps"], prio=q["prio"], sa=q["sa"], data=list(data), tl=tl, ff=ff)
                return False
            sim.api(n, "add_timer", lambda n=n, s=s: n.ecu.add_timer(s["delta"] / 1e6, tcb), delta=s["delta"])
            continue
        if kind == 0:
            data = s["data"] if "data" in s else payload(s["size"], s.get("salt", 0))
            tl = s.get("time_limit", 0)
            ff = s.get("ff", 3)

            def call(n=n, s=s, data=data, tl=tl, ff=ff):
                return n.ecu.send_pgn(s["dp"], s["pf"], s["ps"], s["prio"], s["sa"], list(data), tl / 1e6 if tl else 0, ff)
            sim.api(n, "send_pgn", call, dp=s["dp"], pf=s["pf"], ps=s["ps"], prio=s["prio"], sa=s["sa"],
                    data=list(data), tl=tl, ff=ff)
        else:
            sim.log({"ev": "ptx", "node": s["node"], "id": s["id"], "data": list(s["data"]), "fd": bool(s.get("fd", False)), "ext": True})
            if "flags" in s:
                sim.inject(n, s["id"], s["data"], fd=s.get("fd", False), via_listener=True, flags=s["flags"])
            else:
                sim.inject(n, s["id"], s["data"], fd=s.get("fd", False))
    sim.run(sc.get("dur", 2_000_000))
    sim.log({"ev": "end", "node": sc["nodes"][0]["name"]})
    sim.peer_objs = peers
    return _finish(sc, sim)
