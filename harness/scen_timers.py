"""scenario runner for timers and subscriptions (C12, C16 cyclic part): one real ECU, scripted callbacks.

scenario = {"scripts": {cb(str int): {"ret": bool, "ops": [{"op": "add", "cb": k, "delta": us} | {"op": "remove", "cb": k}]}},
            "ops": [{"t": us, "op": "add"|"remove"|"sub"|"unsub"|"msg", "cb": k, "delta": us}], "dur": us, "dll": ...}
The cookie of every registration is its registration number (rid, counted in call order), so that the
trace names the registration a callback belongs to."""
import vt


class TooBig(BaseException):
    pass


def run(sc, max_events=4000):
    sim = vt.Sim(seed=sc.get("seed", 0))
    _log = sim.log

    def capped(ev):
        if len(sim.trace) > max_events:
            raise TooBig()
        return _log(ev)
    sim.log = capped
    n = sim.add_node("A", latency=1000, dll=sc.get("dll", "j1939-21"))
    ecu = n.ecu
    scripts = {int(k): v for k, v in sc["scripts"].items()}
    ncb = max(scripts) if scripts else 0
    rid = [0]
    cbs = {}
    subs = {}

    def add(cb, delta):
        rid[0] += 1
        ecu.add_timer(delta / 1e6, cbs[cb], rid[0])

    def mk(cb):
        def f(cookie):
            sim.log({"ev": "timer", "node": "A", "cb": cb, "rid": cookie})
            s = scripts[cb]
            if s.get("busy"):                     # a slow callback: the job thread is held up
                sim.advance_to(sim.now_us + s["busy"])
            for o in s["ops"]:
                if o["op"] == "add":
                    add(o["cb"], o["delta"])
                else:
                    ecu.remove_timer(cbs[o["cb"]])
            return s["ret"]
        return f

    def mks(cb):
        def f(priority, pgn, sa, timestamp, data):
            sim.log({"ev": "cb", "node": "A", "cb": cb})
        return f
    for k in scripts:
        cbs[k] = mk(k)
        subs[k] = mks(k)
    t0 = sim.now_us
    try:
        with vt.watchdog():
            _drive(sim, n, ecu, sc, t0, add, cbs, subs)
    except TooBig:
        sim.log = _log
        sim.log({"ev": "spin", "node": "A"})      # the ECU keeps firing callbacks without letting time pass
    except vt.Runaway as e:
        sim.log = _log
        sim.hang(e)
    sim.log = _log
    sim.log({"ev": "end", "node": "A"})
    tr_scripts = [None] * ncb
    for k in range(1, ncb + 1):
        s = scripts.get(k, {"ret": False, "ops": []})
        tr_scripts[k - 1] = {"ret": bool(s["ret"]), "ops": [dict(o, delta=o.get("delta", 0)) for o in s["ops"]],
                             "busy": int(s.get("busy", 0))}
    ev = [e for e in sim.trace]
    return {"cfg": {"A": {"x": 0}}, "ev": ev, "expect": {"x": 0}, "scripts": tr_scripts, "slack": sc.get("slack", 0),
            "meta": {"scenario": sc}}, sim


def _drive(sim, n, ecu, sc, t0, add, cbs, subs):
    for o in sorted(sc["ops"], key=lambda o: o["t"]):
        if t0 + o["t"] > sim.now_us:
            sim.run(t0 + o["t"] - sim.now_us)
        if o["op"] == "add":
            sim.api(n, "add_timer", lambda o=o: add(o["cb"], o["delta"]), cb=o["cb"], delta=o["delta"])
        elif o["op"] == "remove":
            sim.api(n, "remove_timer", lambda o=o: ecu.remove_timer(cbs[o["cb"]]), cb=o["cb"])
        elif o["op"] == "sub":
            sim.api(n, "subscribe", lambda o=o: ecu.subscribe(subs[o["cb"]]), cb=o["cb"])
        elif o["op"] == "unsub":
            sim.api(n, "unsubscribe", lambda o=o: ecu.unsubscribe(subs[o["cb"]]), cb=o["cb"])
        elif o["op"] == "msg":
            sim.inject(n, 0x18FEF120, [1, 2, 3, 4, 5, 6, 7, 8])
    sim.run(sc.get("dur", 1_000_000))
