"""reference peer: an independent, conforming J1939-21 / J1939-22 transport implementation written from the SAE
frame layouts (not from the stack's code).  Its free choices (packets per CTS, hold CTS, reply latency, packet
pacing, own window limit) come from a decision script so that they can be enumerated or seeded.

A Chooser hands out decisions: Chooser(script) replays a list; Chooser(rng=...) draws and records them."""
import vt


class Chooser:
    def __init__(self, script=None, rng=None):
        self.script = list(script) if script is not None else None
        self.rng = rng
        self.taken = []

    def pick(self, options):
        options = list(options)
        if self.script is not None:
            v = self.script.pop(0) if self.script else 0
            v = options[v % len(options)]
        else:
            v = self.rng.choice(options)
        self.taken.append(v)
        return v


def mkid(prio, pf, ps, sa, dp=0):
    return (prio << 26) | (dp << 24) | (pf << 16) | (ps << 8) | sa


def le(v, n):
    return [(v >> (8 * i)) & 0xFF for i in range(n)]


FD_LENS = [0, 1, 2, 3, 4, 5, 6, 7, 8, 12, 16, 20, 24, 32, 48, 64]


def fdlen(n):
    return min(x for x in FD_LENS if x >= n)


class _ErrLog(list):
    """violations of the standard seen by the reference peer; also logged into the trace"""

    def __init__(self, sim, name):
        super().__init__()
        self.sim, self.name = sim, name

    def append(self, msg):
        super().append(msg)
        self.sim.log({"ev": "perr", "node": self.name, "msg": "reference peer: " + msg})


class RefPeer:
    """one address on the bus; plays responder for transfers addressed to it and originator for `send()`"""

    def __init__(self, sim, addr, chooser, fd=False, name="P", latency=300, maxc=255):
        self.sim = sim
        self.addr = addr
        self.ch = chooser
        self.fd = fd
        self.peer = vt.Peer(sim, name, latency)
        self.peer.on_frame = self.on_frame
        self.name = name
        self.maxc = maxc
        self.rx = {}          # (sa, sess) -> responder session
        self.tx = {}          # (da, sess) -> originator session
        self.received = []    # (sa, pgn, payload) completely received from stacks
        self.acked = []       # originator sessions acknowledged by the stack
        self.errors = _ErrLog(sim, name)
        self.PFCM = 0x4D if fd else 0xEC
        self.PFDT = 0x4E if fd else 0xEB
        self.seg = 60 if fd else 7

    # ------------------------------------------------------------------ helpers
    def _send(self, pf, da, data, prio=7):
        self.peer.send(mkid(prio, pf, da, self.addr), data, fd=self.fd)

    def _cm(self, da, ctl, sess, size, segs, b7, b8, pgn, prio=7):
        if self.fd:
            d = [(sess << 4) | ctl] + le(size, 3) + le(segs, 3) + [b7 & 255, b8 & 255] + le(pgn, 3)
        else:
            raise AssertionError
        self._send(self.PFCM, da, d, prio)

    def reply_delay(self):
        return self.ch.pick([1, 1000, 20000, 149000])

    # ------------------------------------------------------------------ responder role
    def on_frame(self, fr):
        can_id, ext, d, fd = fr
        pf = (can_id >> 16) & 0xFF
        da = (can_id >> 8) & 0xFF
        sa = can_id & 0xFF
        if pf == self.PFCM and (da == self.addr or da == 255):
            self._on_cm(sa, da, d)
        elif pf == self.PFDT and (da == self.addr or da == 255):
            self._on_dt(sa, da, d)

    def _grant(self, key):
        s = self.rx.get(key)
        if s is None or s["done"]:
            return
        remaining = s["total"] - s["got"]
        if s["holds"] > 0:
            s["holds"] -= 1
            self._cts(s, 0)
            self.sim.after(self.ch.pick([1000, 100000, 400000]), lambda: self._grant(key))
            return
        n = self.ch.pick(range(1, min(s["limit"], remaining, self.maxc) + 1))
        s["window_end"] = s["got"] + n
        self._cts(s, n)

    def _cts(self, s, n):
        nxt = s["got"] + 1
        if self.fd:
            self._cm(s["sa"], 1, s["sess"], 0xFFFFFF, nxt, n, 0, s["pgn"])
        else:
            self._send(self.PFCM, s["sa"], [17, n, nxt, 255, 255] + le(s["pgn"], 3))

    def _on_cm(self, sa, da, d):
        if self.fd:
            if len(d) < 12:
                return
            ctl, sess = d[0] & 15, d[0] >> 4
            size = d[1] | d[2] << 8 | d[3] << 16
            segs = d[4] | d[5] << 8 | d[6] << 16
            pgn = d[9] | d[10] << 8 | d[11] << 16
            if ctl == 0 and da == self.addr:       # RTS
                key = (sa, sess)
                self.rx[key] = {"sa": sa, "sess": sess, "size": size, "total": segs, "limit": d[7], "pgn": pgn,
                                "got": 0, "buf": [], "done": False, "holds": self.ch.pick([0, 0, 1, 3]), "bam": False}
                self.sim.after(self.reply_delay(), lambda: self._grant(key))
            elif ctl == 4 and da == 255:           # BAM
                self.rx[(sa, sess, "b")] = {"sa": sa, "sess": sess, "size": size, "total": segs, "pgn": pgn,
                                            "got": 0, "buf": [], "done": False, "bam": True}
            elif ctl == 2:                          # EOM status
                key = (sa, sess) if da == self.addr else (sa, sess, "b")
                s = self.rx.get(key)
                if s is not None:
                    if s["got"] == s["total"] and size == s["size"] and segs == s["total"]:
                        self.received.append((sa, s["pgn"], s["buf"][:s["size"]], s["buf"][s["size"]:]))
                        if da == self.addr:
                            self.sim.after(self.reply_delay(), lambda: self._cm(sa, 3, sess, size, segs, 255, 255, s["pgn"]))
                    else:
                        self.errors.append("EOM status does not match")
                    del self.rx[key]
            elif ctl == 1 and da == self.addr:      # CTS for one of our sessions
                self._on_cts((sa, sess), d[7], segs)
            elif ctl == 3 and da == self.addr:      # EOM ack
                s = self.tx.pop((sa, sess), None)
                if s is not None:
                    self.acked.append((sa, s["pgn"], size, segs))
            elif ctl == 15 and da == self.addr:
                self.tx.pop((sa, sess), None)
                self.rx.pop((sa, sess), None)
                self.errors.append("abort from stack, reason %d" % d[8])
        else:
            if len(d) < 8:
                return
            ctl = d[0]
            pgn = d[5] | d[6] << 8 | d[7] << 16
            if ctl == 16 and da == self.addr:
                key = (sa, 0)
                self.rx[key] = {"sa": sa, "sess": 0, "size": d[1] | d[2] << 8, "total": d[3], "limit": d[4], "pgn": pgn,
                                "got": 0, "buf": [], "done": False, "holds": self.ch.pick([0, 0, 1, 3]), "bam": False}
                self.sim.after(self.reply_delay(), lambda: self._grant(key))
            elif ctl == 32 and da == 255:
                self.rx[(sa, 0, "b")] = {"sa": sa, "sess": 0, "size": d[1] | d[2] << 8, "total": d[3], "pgn": pgn,
                                         "got": 0, "buf": [], "done": False, "bam": True}
            elif ctl == 17 and da == self.addr:
                self._on_cts((sa, 0), d[1], d[2])
            elif ctl == 19 and da == self.addr:
                s = self.tx.pop((sa, 0), None)
                if s is not None:
                    self.acked.append((sa, s["pgn"], d[1] | d[2] << 8, d[3]))
            elif ctl == 255 and da == self.addr:
                self.tx.pop((sa, 0), None)
                self.rx.pop((sa, 0), None)
                self.errors.append("abort from stack, reason %d" % d[1])

    def _on_dt(self, sa, da, d):
        if self.fd:
            if len(d) <= 4:
                return
            sess = d[0] >> 4
            seq = d[1] | d[2] << 8 | d[3] << 16
            body = d[4:]
        else:
            sess = 0
            seq = d[0]
            body = d[1:]
        key = (sa, sess) if da == self.addr else (sa, sess, "b")
        s = self.rx.get(key)
        if s is None:
            return
        if seq != s["got"] + 1:
            self.errors.append("sequence %d, expected %d" % (seq, s["got"] + 1))
            return
        if not s["bam"] and seq > s.get("window_end", 0):
            self.errors.append("packet %d beyond the cleared window %d" % (seq, s.get("window_end", 0)))
        s["got"] = seq
        s["buf"].extend(body)
        if s["got"] == s["total"]:
            if not self.fd:
                self.received.append((sa, s["pgn"], s["buf"][:s["size"]], s["buf"][s["size"]:]))
                del self.rx[key]
                if not s["bam"]:
                    self.sim.after(self.reply_delay(), lambda: self._send(
                        self.PFCM, sa, [19] + le(s["size"], 2) + [s["total"], 255] + le(s["pgn"], 3)))
        elif not s["bam"] and s["got"] == s["window_end"]:
            s["holds"] = self.ch.pick([0, 0, 0, 1])
            self.sim.after(self.reply_delay(), lambda: self._grant(key))

    # ------------------------------------------------------------------ originator role
    def send(self, da, dp, pf, ps_unused, payload, prio=6, sess=0):
        """start a transfer of `payload` (PGN dp/pf) to `da` (255 = BAM)"""
        size = len(payload)
        total = (size + self.seg - 1) // self.seg
        pgn = (dp << 16) | (pf << 8) | (ps_unused if pf >= 240 else 0)
        bam = da == 255
        limit = self.ch.pick([1, 2, 3, 16, 255])
        s = {"da": da, "sess": sess, "pgn": pgn, "payload": list(payload), "total": total, "sent": 0, "bam": bam,
             "limit": limit}
        self.sim.log({"ev": "papi", "node": self.name, "sa": self.addr, "dp": dp, "pf": pf,
                      "ps": (ps_unused if pf >= 240 else da), "prio": prio, "data": list(payload)})
        self.tx[(da, sess)] = s
        if self.fd:
            if bam:
                self._cm(255, 4, sess, size, total, 255, 0, pgn, prio)
            else:
                self._cm(da, 0, sess, size, total, limit, 0, pgn, prio)
        else:
            if bam:
                self._send(self.PFCM, 255, [32] + le(size, 2) + [total, 255] + le(pgn, 3), prio)
            else:
                self._send(self.PFCM, da, [16] + le(size, 2) + [total, limit] + le(pgn, 3), prio)
        if bam:
            self.sim.after(self._bam_gap(), lambda: self._bam_next((da, sess)))

    def _bam_gap(self):
        return self.ch.pick([10000, 50000, 199000] if self.fd else [50000, 100000, 199000])

    def _dt(self, s, k):
        lo = (k - 1) * self.seg
        chunk = s["payload"][lo:lo + self.seg]
        if self.fd:
            d = [(s["sess"] << 4)] + le(k, 3) + chunk
            d = d + [255] * (fdlen(len(d)) - len(d))
        else:
            d = [k] + chunk + [255] * (7 - len(chunk))
        self._send(self.PFDT, s["da"], d)

    def _bam_next(self, key):
        s = self.tx.get(key)
        if s is None:
            return
        s["sent"] += 1
        self._dt(s, s["sent"])
        if s["sent"] < s["total"]:
            self.sim.after(self._bam_gap(), lambda: self._bam_next(key))
        else:
            if self.fd:
                self.sim.after(self._bam_gap(), lambda: self._eoms(key))
            else:
                del self.tx[key]

    def _eoms(self, key):
        s = self.tx.get(key)
        if s is None:
            return
        self._cm(s["da"], 2, s["sess"], len(s["payload"]), s["total"], 0, 0, s["pgn"])
        if s["bam"]:
            del self.tx[key]

    def _on_cts(self, key, n, nxt):
        s = self.tx.get(key)
        if s is None:
            return
        if n == 0:
            return                      # hold
        if n > s["limit"]:
            self.errors.append("CTS grants %d > RTS limit %d" % (n, s["limit"]))
        if nxt != s["sent"] + 1:
            self.errors.append("CTS next %d, expected %d" % (nxt, s["sent"] + 1))
        if n > s["total"] - s["sent"]:
            self.errors.append("CTS grants %d > remaining %d" % (n, s["total"] - s["sent"]))
        s["burst_end"] = min(s["total"], s["sent"] + n)
        self.sim.after(self.reply_delay(), lambda: self._burst(key))

    def _burst(self, key):
        s = self.tx.get(key)
        if s is None or s["sent"] >= s.get("burst_end", 0):
            return
        s["sent"] += 1
        self._dt(s, s["sent"])
        if s["sent"] < s["burst_end"]:
            self.sim.after(self.ch.pick([1, 1000, 50000, 199000]), lambda: self._burst(key))
        elif s["sent"] == s["total"] and self.fd:
            self.sim.after(self.ch.pick([1, 1000, 50000]), lambda: self._eoms(key))
