"""line-level pre-emption of the job thread (C08).

While a job pass of any stack runs, a sys.settrace line hook watches the frames of j1939_21.py / j1939_22.py /
electronic_control_unit.py.  At the chosen (node, file, line, occurrence) the job thread is HELD for `hold_us` of
virtual time: from inside the hook the rest of the system keeps running - the other stacks completely, this stack's
frame reception (ecu.notify on the receive thread), but not this stack's job thread - then the hook returns and the
line executes.  For CPython this is exactly a thread switch immediately before that line."""
import os
import sys
import collections

import vt
import scen

REPO = os.environ.get("VERIF_REPO", "/repo")
FILES = tuple(os.path.join(REPO, "j1939", f) for f in ("j1939_21.py", "j1939_22.py", "electronic_control_unit.py"))


class Preemptor:
    def __init__(self, sim, target=None, hold_us=0, second=None, during=None):
        self.sim = sim
        self.during = during          # [offset_us, send record]: the application thread submits a message while the job thread is held
        self.targets = [t for t in (target, second) if t is not None]   # (node, file, line, occurrence)
        self.hold_us = hold_us
        self.count = collections.Counter()
        self.points = []
        self.point_time = {}
        self.point_ev = {}
        self.cur = None
        self.active = False
        orig_run_job = sim.run_job

        def run_job(n, _orig=orig_run_job):
            if n.dead or n.silent or n.held:
                return
            if self.active or sim.hold_node is not None:
                return _orig(n)                      # somebody is held: other job threads run untraced
            self.active = True
            self.cur = n
            sys.settrace(self._global)
            try:
                _orig(n)
            finally:
                sys.settrace(None)
                self.active = False
        sim.run_job = run_job

    def _global(self, frame, event, arg):
        if frame.f_code.co_filename in FILES:
            return self._local
        return None

    def _local(self, frame, event, arg):
        if event == "line" and self.sim.hold_node is None:
            key = (self.cur.name, os.path.basename(frame.f_code.co_filename), frame.f_lineno)
            self.count[key] += 1
            p = key + (self.count[key],)
            self.points.append(p)
            self.point_time[p] = self.sim.now_us - vt.EPOCH_US       # same clock as the events' t
            self.point_ev[p] = len(self.sim.trace)                   # position in the trace
            if p in self.targets:
                self._hold(p)
        return self._local

    def _hold(self, p):
        sim = self.sim
        n = self.cur
        sys.settrace(None)
        sim.log({"ev": "hold", "node": n.name, "file": p[1], "line": p[2], "occ": p[3], "us": self.hold_us})
        n.held = True
        sim.hold_node = n
        held_thread, vt.CUR_THREAD[0] = vt.CUR_THREAD[0], None      # whatever runs during the hold runs on other threads
        end = sim.now_us + self.hold_us
        saved_end, saved_depth = sim.t_end, sim.depth
        sim.t_end, sim.depth = end, 0
        if self.during is not None and p == self.targets[0] and "inject" in self.during[1]:
            off, q = self.during            # a frame (e.g. a connection abort of the peer) received while the thread is held
            f = q["inject"]

            def feed():
                sim.log({"ev": "ptx", "node": f["node"], "id": f["id"], "data": list(f["data"]), "fd": bool(f.get("fd", False)), "ext": True})
                sim.inject(sim.node(f["node"]), f["id"], f["data"], fd=f.get("fd", False))
            sim.after(off, feed)
        elif self.during is not None and p == self.targets[0]:
            off, q = self.during
            qn = sim.node(q["node"])
            data = q["data"] if "data" in q else scen.payload(q["size"], q.get("salt", 0))

            def submit():
                sim.api(qn, "send_pgn", lambda: qn.ecu.send_pgn(q["dp"], q["pf"], q["ps"], q["prio"], q["sa"], list(data)),
                        dp=q["dp"], pf=q["pf"], ps=q["ps"], prio=q["prio"], sa=q["sa"], data=list(data), tl=0, ff=3)
            sim.after(off, submit)
        sim.flush_pokes()
        while sim.step():
            pass
        sim.advance_to(max(sim.now_us, end))
        sim.t_end, sim.depth = saved_end, saved_depth
        n.held = False
        sim.hold_node = None
        vt.CUR_THREAD[0] = held_thread
        sim.log({"ev": "resume", "node": n.name})
        sys.settrace(self._global)


def run(sc, target=None, hold_us=0, second=None, during=None):
    """like scen.run, with the job thread pre-empted at `target` (and `second`); `during` = [offset_us, send]: a message
    the application thread of a stack submits while the job thread is held at `target`"""
    hook = {}

    def install(sim):
        hook["p"] = Preemptor(sim, target, hold_us, second, during)
    sc = dict(sc, _install=install)
    tr, sim = scen.run(sc)
    tr["meta"]["scenario"] = {k: v for k, v in sc.items() if k != "_install"}
    tr["meta"]["scenario"]["preempt"] = {"target": list(target) if target else None, "hold_us": hold_us,
                                         "second": list(second) if second else None, "during": during}
    return tr, sim, hook["p"]
