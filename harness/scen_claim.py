"""scenario runner for controller applications: address claiming, requests, send guards (C04, C13, C14, C05).

scenario = {"dll": "j1939-21",
  "nodes": [{"name", "lat", "cas": [{"pref": addr|None, "aac": 0|1, "bypass": bool, "ident": int, "name": {field: value}}],
             "lst": [{"tag", "kind": "int", "adr"}]}],
  "ops": [{"t", "node", "op": "start", "ca": i (1-based), "delay": us}
          {"t", "node", "op": "send_pgn", "ca", "dp", "pf", "ps", "prio", "data"}
          {"t", "node", "op": "send_message", "ca", "prio", "pgn", "data"}
          {"t", "node", "op": "send_request", "ca", "dp", "pgn", "dest"}
          {"t", "node", "op": "inject", "id", "data"}],
  "dur": us, "expect": {"settled": bool}}"""
import logging
import vt
import j1939

logging.disable(logging.CRITICAL)


def _finish(sc, sim):
    expect = {"settled": False}
    expect.update(sc.get("expect", {}))
    return {"cfg": sim.cfg_ret, "ev": sim.trace, "expect": expect, "meta": {"scenario": sc}}, sim


def run(sc):
    try:
        with vt.watchdog():
            return _run(sc)
    except vt.Runaway as e:
        sim = vt.CUR[0]
        sim.hang(e)
        return _finish(sc, sim)


def _run(sc):
    sim = vt.Sim(seed=sc.get("seed", 0))
    cfg = {}
    sim.cfg_ret = cfg
    cas = {}
    for nd in sc["nodes"]:
        n = sim.add_node(nd["name"], latency=nd.get("lat", 1000), dll=sc.get("dll", "j1939-21"))
        lst = [{"tag": "ecu", "kind": "all", "adr": -1, "ca": 0}]
        n.listen(None, tag="ecu")
        ccfg, reqtag = [], []
        cas[nd["name"]] = []
        for k, c in enumerate(nd.get("cas", []), start=1):
            if "value_bytes" in c:         # the NAME given as its 8 bytes (LSB first); bit 63 = arbitrary address capable
                name = j1939.Name(bytes=list(c["value_bytes"]))
                c = dict(c, aac=(c["value_bytes"][7] >> 7) & 1)
            else:
                kw = dict(c.get("name", {}))
                kw.setdefault("identity_number", c.get("ident", k))
                name = j1939.Name(arbitrary_address_capable=c.get("aac", 0), **kw)
            ca = j1939.ControllerApplication(name, c.get("pref"), bypass_address_claim=c.get("bypass", False))
            n.ecu.add_ca(controller_application=ca)
            n.listen_ca(ca, tag="ca%d" % k)
            lst.append({"tag": "ca%d" % k, "kind": "ca", "adr": -1, "ca": k})

            def rq(src, dest, pgn, k=k, n=n):
                sim.log({"ev": "req", "node": n.name, "tag": "rq%d" % k, "sa": src, "dest": dest, "pgn": pgn})
            ca.subscribe_request(rq)
            reqtag.append("rq%d" % k)
            cas[nd["name"]].append(ca)
            ccfg.append({"name": list(name.bytes), "pref": c["pref"] if c.get("pref") is not None else -1,
                         "aac": bool(c.get("aac", 0)), "bypass": bool(c.get("bypass", False) and c.get("pref") is not None)})
        for L in nd.get("lst", []):
            n.listen(L["adr"], tag=L["tag"])
            lst.append({"tag": L["tag"], "kind": "int", "adr": L["adr"], "ca": 0})
        cfg[nd["name"]] = {"cas": ccfg, "lst": lst, "reqtag": reqtag}
        # a reactive application: on a frame of a given PGN (from a given source address) it calls into its CA from INSIDE
        # the delivery callback - on a zero-latency bus that call runs while the sender is still inside its send call
        for rx in nd.get("react", []):
            def react(priority, pgn, sa, timestamp, data, rx=rx, n=n, left=[rx.get("times", 1)]):
                if pgn != rx["pgn"] or (rx.get("sa") is not None and sa != rx["sa"]) or left[0] <= 0:
                    return
                left[0] -= 1
                ca = cas[n.name][rx.get("ca", 1) - 1]
                o = rx["do"]
                if o["op"] == "send_request":
                    sim.api(n, "ca_send_request", lambda: ca.send_request(o["dp"], o["pgn"], o["dest"]),
                            ca=rx.get("ca", 1), dp=o["dp"], pgn=o["pgn"], dest=o["dest"])
                else:
                    sim.api(n, "ca_send_pgn", lambda: ca.send_pgn(o["dp"], o["pf"], o["ps"], o["prio"], list(o["data"])),
                            ca=rx.get("ca", 1), dp=o["dp"], pf=o["pf"], ps=o["ps"], prio=o["prio"], data=list(o["data"]))
            n.ecu.subscribe(react)

    def proj(node):
        try:
            out = []
            for ca in cas[node.name]:
                adr = ca._device_address
                out.append({"st": ca._device_address_state, "ann": ca._device_address_announced,
                            "adr": -1 if adr is None else adr})
            return {"cas": out, "tok": node.ecu._job_thread_wakeup_queue.n}
        except (AttributeError, TypeError):
            return None
    sim.projector = proj
    # a peer that answers a frame at once (zero latency): the answer is fed to a stack while the sender of the frame is
    # still inside its send call
    brs = [dict(b, left=[b.get("times", 1)]) for b in sc.get("bus_react", [])]

    def on_frame(idx, src, fr):
        can_id = fr[0]
        for b in brs:
            if ((can_id >> 16) & 0xFF) == b["pf"] and (b.get("sa") is None or (can_id & 0xFF) == b["sa"]) and b["left"][0] > 0:
                b["left"][0] -= 1
                q = b["inject"]
                sim.log({"ev": "ptx", "node": q["node"], "id": q["id"], "data": list(q["data"]), "fd": False, "ext": True})
                sim.inject(sim.node(q["node"]), q["id"], q["data"])
    if brs:
        sim.on_frame = on_frame
    t0 = sim.now_us
    for o in sorted(sc["ops"], key=lambda o: o["t"]):
        if t0 + o["t"] > sim.now_us:
            sim.run(t0 + o["t"] - sim.now_us)
        n = sim.node(o["node"])
        if o["op"] == "inject":
            sim.log({"ev": "ptx", "node": o["node"], "id": o["id"], "data": list(o["data"]), "fd": False, "ext": True})
            if "flags" in o:
                sim.inject(n, o["id"], o["data"], via_listener=True, flags=o["flags"])
            else:
                sim.inject(n, o["id"], o["data"])
            continue
        ca = cas[o["node"]][o["ca"] - 1]
        if o["op"] == "start":
            sim.api(n, "start", lambda: ca.start(o["delay"] / 1e6), ca=o["ca"], delay=o["delay"])
        elif o["op"] == "stop":
            sim.api(n, "stop", lambda: ca.stop(), ca=o["ca"])
        elif o["op"] == "send_pgn":
            sim.api(n, "ca_send_pgn", lambda: ca.send_pgn(o["dp"], o["pf"], o["ps"], o["prio"], list(o["data"])),
                    ca=o["ca"], dp=o["dp"], pf=o["pf"], ps=o["ps"], prio=o["prio"], data=list(o["data"]))
        elif o["op"] == "send_message":
            sim.api(n, "ca_send_message", lambda: ca.send_message(o["prio"], o["pgn"], list(o["data"])),
                    ca=o["ca"], prio=o["prio"], pgn=o["pgn"], data=list(o["data"]))
        elif o["op"] == "send_request":
            sim.api(n, "ca_send_request", lambda: ca.send_request(o["dp"], o["pgn"], o["dest"]),
                    ca=o["ca"], dp=o["dp"], pgn=o["pgn"], dest=o["dest"])
    sim.run(sc.get("dur", 3_000_000))
    sim.log({"ev": "end", "node": sc["nodes"][0]["name"]})
    return _finish(sc, sim)
