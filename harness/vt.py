"""vt - deterministic virtual-time harness for python-can-j1939.

Runs the *unmodified* j1939 package of /repo's working tree single-threaded
under a virtual clock (integer microseconds).  Nothing in /repo is edited: the
module globals `time`, `queue`, `threading` of the stack are rebound from the
outside (DESIGN.md section 4).

 * job thread  : `threading.Thread.start()` runs nothing; the scheduler calls
                 `ecu._async_job_thread()`; the wake queue's blocking `get`
                 records `sleep_until` and unwinds the call with a private
                 BaseException.  One call = 0..n passes followed by one sleep.
 * bus         : every frame handed to a node's `send_message` backend gets a
                 global sequence number and is delivered to every other node
                 after that receiver's latency (0 = synchronously, re-entrantly,
                 inside the sender's call).  Per receiver bus order is preserved.
 * faults      : drop the k-th bus frame, silence (kill) a node, inject frames.
 * recording   : every observable event is appended to `sim.trace` in execution
                 order by the single scheduler thread (no wall clock, no guessing).
"""
import sys
import os
import heapq
import types
import itertools
import random
import threading as _real_threading
import time as _real_time
import queue as _real_queue

REPO = os.environ.get("VERIF_REPO", "/repo")
if REPO not in sys.path:
    sys.path.insert(0, REPO)

import j1939                                           # noqa: E402
import j1939.electronic_control_unit as _ecu_mod       # noqa: E402
import j1939.j1939_21 as _m21                          # noqa: E402
import j1939.j1939_22 as _m22                          # noqa: E402

_mq = sys.modules["j1939.Dm14Query"]
_msrv = sys.modules["j1939.Dm14Server"]

EPOCH_US = 1_000_000_000          # virtual time starts at 1000 s
WAKE_LAT_US = 1                   # job thread wakes >= 1 us after its deadline
SPIN_LIMIT = 3000                 # time() calls without clock advance => busy spin


class _Yield(BaseException):
    """unwinds _async_job_thread when the job thread goes to sleep"""


class Spin(Exception):
    """the stack keeps asking for the time while the clock cannot advance"""


class FakeEmpty(Exception):
    pass


class Runaway(BaseException):
    """a scenario does not come to an end: a call into the stack never returns (endless loop inside a handler), or the
    stacks produce events without bound (e.g. a frame ping-pong).  Raised by the watchdog, turned into a `hang` event
    by the scenario runner - the trace is judged like any other (a stack that can be made to loop is a finding)."""


MAX_EVENTS = int(os.environ.get("VERIF_MAX_EVENTS", "150000"))      # per scenario (the largest regular ones have ~10^4)
CPU_BUDGET_S = float(os.environ.get("VERIF_SCENARIO_CPU_S", "30"))  # CPU seconds of this process per scenario (regular: < 3)
HANGS = [0]                                                         # scenarios stopped by the watchdog in this process


def _on_vtalrm(signum, frame):
    HANGS[0] += 1
    raise Runaway("CPU budget of the scenario used up")


class watchdog:
    """with watchdog(): ... - a CPU-time (not wall-clock: immune to a loaded machine) budget for one scenario"""

    def __enter__(self):
        import signal
        self._old = signal.signal(signal.SIGVTALRM, _on_vtalrm)
        # once two scenarios have hung, the following ones get a short budget (a broken stack hangs in many scenarios)
        signal.setitimer(signal.ITIMER_VIRTUAL, CPU_BUDGET_S if HANGS[0] < 2 else max(4.0, CPU_BUDGET_S / 8))
        return self

    def __exit__(self, *a):
        import signal
        signal.setitimer(signal.ITIMER_VIRTUAL, 0)
        signal.signal(signal.SIGVTALRM, self._old)
        return False


CUR = [None]      # the active simulation


def _sim():
    return CUR[0]


class _Clock:
    def time(self):
        s = _sim()
        s.clock_calls += 1
        if s.clock_calls > SPIN_LIMIT:
            raise Spin()
        return s.now_us / 1e6

    def sleep(self, secs):
        pass


_CLOCK = _Clock()


class _Fallback(types.SimpleNamespace):
    """a replaced module: the virtual members first, everything else from the real module (so that a harmless change of
    the stack - another clock function, a lock type - does not break the harness)"""

    def __init__(self, real, **kw):
        super().__init__(**kw)
        self.__dict__["_real"] = real

    def __getattr__(self, name):
        return getattr(self.__dict__["_real"], name)


_faketime = _Fallback(_real_time, time=_CLOCK.time, sleep=_CLOCK.sleep, monotonic=_CLOCK.time, perf_counter=_CLOCK.time,
                      time_ns=lambda: int(_CLOCK.time() * 1e9), monotonic_ns=lambda: int(_CLOCK.time() * 1e9))


class WakeQueue:
    """stand-in for ElectronicControlUnit._job_thread_wakeup_queue"""

    def __init__(self, maxsize=0):
        self.n = 0
        self.sleep_until = None
        self.node = None
        self.maxsize = maxsize

    def put(self, x, block=True, timeout=None):
        if self.maxsize and self.n >= self.maxsize:
            if not block or timeout is not None:
                raise _real_queue.Full()
            # a blocking put on a full wake-up queue: nobody but the job thread ever takes tokens out, and it only does so
            # when it goes to sleep - the caller (often the job thread itself, re-entrantly) would wait for ever
            raise Runaway("put() blocks on the full wake-up queue")
        self.n += 1
        s = _sim()
        if s is not None and self.node is not None and s.log_tokens:
            s.log({"ev": "token", "node": self.node.name})

    # the rest of the queue.Queue interface, so that a harmless rewrite of the job loop does not break the harness
    def put_nowait(self, x):
        self.put(x)

    def qsize(self):
        return self.n

    def empty(self):
        return self.n == 0

    def full(self):
        return False

    def task_done(self):
        pass

    def join(self):
        pass

    def get_nowait(self):
        return self.get(False)

    def get(self, block=True, timeout=None):
        s = _sim()
        if not block or (timeout is not None and timeout <= 0):
            if self.n > 0:
                self.n -= 1
                if self.node is not None:     # a token taken without sleeping: visible in the projected token count
                    s.log({"ev": "note", "node": self.node.name, "what": "wake-up token taken by a non-blocking get"})
                return 1
            raise FakeEmpty()
        if self.n > 0:
            self.n -= 1
            if self.node is not None:
                s.log({"ev": "sleep", "node": self.node.name, "tok": 1, "until": 0})
            return 1
        if timeout is None:
            timeout = 3600.0
        self.sleep_until = s.now_us + int(round(timeout * 1e6)) + s.wake_lat_us
        if self.node is not None:
            s.log({"ev": "sleep", "node": self.node.name, "tok": 0,
                   "until": self.sleep_until - EPOCH_US})
        raise _Yield()


class FakeThread:
    def __init__(self, target=None, name=None, **kw):
        self.target = target
        self.daemon = True

    def start(self):
        pass

    def join(self, timeout=None):
        pass


class AppQueue:
    """stand-in for the blocking application queues of Dm14Query / DM14Server:
    a blocking get runs the event loop nested until an item arrives or the
    virtual timeout elapses."""

    def __init__(self):
        self.items = []

    def put(self, x):
        self.items.append(x)

    def qsize(self):
        return len(self.items)

    def put_nowait(self, x):
        self.put(x)

    def empty(self):
        return not self.items

    def full(self):
        return False

    def task_done(self):
        pass

    def join(self):
        pass

    def get_nowait(self):
        return self.get(False)

    def get(self, block=True, timeout=None):
        if self.items:
            return self.items.pop(0)
        if not block or (timeout is not None and timeout <= 0):
            raise FakeEmpty()
        s = _sim()
        end = s.now_us + int(round((timeout if timeout is not None else 3600) * 1e6))
        saved = s.t_end
        saved_depth = s.depth
        s.depth = 0                   # the calling thread blocks: everything else runs
        s.t_end = end
        s.flush_pokes()
        while not self.items:
            if not s.step():
                break
        s.t_end = saved
        s.depth = saved_depth
        if self.items:
            return self.items.pop(0)
        s.advance_to(max(s.now_us, end))
        raise FakeEmpty()


_fakequeue_ecu = _Fallback(_real_queue, Queue=WakeQueue, SimpleQueue=WakeQueue, Empty=FakeEmpty)
CUR_THREAD = [None]        # the FakeThread whose target is running (a job thread's pass), None = some other thread


def _current_thread():
    return CUR_THREAD[0] if CUR_THREAD[0] is not None else _real_threading.current_thread()


_fakethreading = _Fallback(_real_threading, Thread=FakeThread, current_thread=_current_thread, currentThread=_current_thread,
                           get_ident=lambda: id(_current_thread()))
_appqueue = _Fallback(_real_queue, Queue=AppQueue, SimpleQueue=AppQueue, Empty=FakeEmpty)


def install():
    """rebind the stack's module globals (idempotent)"""
    _ecu_mod.time = _faketime
    _ecu_mod.queue = _fakequeue_ecu
    _ecu_mod.threading = _fakethreading
    _m21.time = _faketime
    _m22.time = _faketime
    _m22.print = lambda *a, **k: None      # the FD stack print()s on unsupported contained PGs
    _mq.queue = _appqueue
    _msrv.queue = _appqueue


install()


class Node:
    def __init__(self, sim, name, latency):
        self.sim = sim
        self.name = name
        self.latency = latency        # int us, or callable(frame)->int us
        self.ecu = None
        self.dead = None              # exception that killed the job thread / "spin"
        self.silent = False           # vanished peer: neither sends nor reacts
        self.last_arrival = 0
        self.pending_rx = 0           # frames scheduled but not yet delivered
        self.held = False             # job thread suspended (pre-emption mode)
        self.cas = []
        self.ntx = 0

    # -- conveniences ---------------------------------------------------
    def add_ca(self, addr, ident=None, bypass=True, aac=0, **namekw):
        name = j1939.Name(arbitrary_address_capable=aac,
                          identity_number=(addr if ident is None else ident), **namekw)
        ca = j1939.ControllerApplication(name, addr, bypass_address_claim=bypass)
        self.ecu.add_ca(controller_application=ca)
        self.cas.append(ca)
        return ca

    def listen(self, dev_adr=None, tag="ecu"):
        """register a logging subscriber on the ECU (dev_adr None/int/callable)"""
        def cb(priority, pgn, sa, timestamp, data):
            self.sim.log({"ev": "cb", "node": self.name, "tag": tag, "prio": priority,
                          "pgn": pgn, "sa": sa,
                          "data": (list(data) if data is not None else None)})
        self.ecu.subscribe(cb, dev_adr)
        return cb

    def listen_ca(self, ca, tag="ca"):
        def cb(priority, pgn, sa, timestamp, data):
            self.sim.log({"ev": "cb", "node": self.name, "tag": tag, "prio": priority,
                          "pgn": pgn, "sa": sa,
                          "data": (list(data) if data is not None else None)})
        ca.subscribe(cb)
        return cb


class Sim:
    def __init__(self, seed=0, wake_lat_us=WAKE_LAT_US, log_tokens=False):
        install()
        CUR[0] = self
        self.now_us = EPOCH_US
        self.clock_calls = 0
        self.wake_lat_us = wake_lat_us
        self.events = []            # heap of (time_us, seq, fn)
        self.seq = itertools.count()
        self.nodes = []
        self.trace = []
        self.nframes = 0
        self.drop = None            # predicate(idx, src_node, frame) -> bool
        self.on_frame = None        # observer(idx, src_node, frame) called for every bus frame
        self.t_end = 1 << 62
        self.rng = random.Random(seed)
        self.depth = 0              # handler nesting depth
        self.runaway = False
        self.projector = None       # fn(node) -> dict, logged as "abs" after top-level steps
        self.dirty = []
        self.log_tokens = log_tokens
        self.hold_node = None

    # ------------------------------------------------------------------ log
    def rel(self):
        return self.now_us - EPOCH_US

    def log(self, ev):
        ev["t"] = self.now_us - EPOCH_US
        ev["i"] = len(self.trace)
        self.trace.append(ev)
        if len(self.trace) > MAX_EVENTS and not self.runaway:
            self.runaway = True
            raise Runaway("more than %d events" % MAX_EVENTS)
        return ev

    def hang(self, why):
        """called by the scenario runner when the watchdog fired"""
        self.runaway = True
        self.trace.append({"ev": "hang", "node": self.nodes[0].name if self.nodes else "A", "why": str(why)[:120],
                           "t": self.now_us - EPOCH_US, "i": len(self.trace)})

    def touch(self, node):
        if self.projector is not None and node not in self.dirty:
            self.dirty.append(node)

    def flush_abs(self):
        if self.projector is None or self.depth > 0:
            return
        while self.dirty:
            n = self.dirty.pop(0)
            p = self.projector(n)
            if p is not None:
                e = {"ev": "abs", "node": n.name}
                e.update(p)
                self.log(e)

    # --------------------------------------------------------------- clock
    def advance_to(self, t_us):
        if t_us > self.now_us:
            self.now_us = t_us
        self.clock_calls = 0

    def at(self, t_us, fn):
        heapq.heappush(self.events, (t_us, next(self.seq), fn))

    def after(self, d_us, fn):
        self.at(self.now_us + d_us, fn)

    # --------------------------------------------------------------- nodes
    def add_node(self, name, latency=1000, dll="j1939-21", **kw):
        node = Node(self, name, latency)

        def send_message(can_id, extended_id, data, fd_format=False):
            fr = (can_id, bool(extended_id), list(data), bool(fd_format))
            node.ntx += 1
            self.log({"ev": "tx", "node": name, "id": can_id, "ext": bool(extended_id),
                      "data": list(data), "fd": bool(fd_format)})
            self.touch(node)
            self.broadcast(node, fr)

        node.ecu = j1939.ElectronicControlUnit(data_link_layer=dll, send_message=send_message, **kw)
        node.ecu._job_thread_wakeup_queue.node = node
        # log the beginning of every job pass (instance attribute, no source change)
        dllobj = node.ecu.j1939_dll
        orig = dllobj.async_job_thread

        def traced_pass(now, _orig=orig, _node=node):
            self.log({"ev": "job", "node": _node.name})
            self.touch(_node)
            return _orig(now)
        dllobj.async_job_thread = traced_pass
        self.nodes.append(node)
        self.run_job(node)
        self.flush_abs()
        return node

    def node(self, name):
        for n in self.nodes:
            if n.name == name:
                return n
        raise KeyError(name)

    # ----------------------------------------------------------------- bus
    def broadcast(self, src, fr):
        idx = self.nframes
        self.nframes += 1
        if self.on_frame:
            self.on_frame(idx, src, fr)
        if src.silent:
            self.log({"ev": "lost", "node": src.name, "idx": idx, "why": "silent"})
            return
        if self.drop and self.drop(idx, src, fr):
            self.log({"ev": "lost", "node": src.name, "idx": idx, "why": "drop"})
            return
        if not fr[1]:
            return          # base-format (11-bit) frame: the stack's bus listener ignores those
        for n in self.nodes:
            if n is src:
                continue
            lat = n.latency(fr) if callable(n.latency) else n.latency
            arrival = max(self.now_us + lat, n.last_arrival)
            n.last_arrival = arrival
            if arrival == self.now_us and n.pending_rx == 0:
                self.deliver(n, fr)
            else:
                n.pending_rx += 1

                def _later(n=n, fr=fr):
                    n.pending_rx -= 1
                    self.deliver(n, fr)
                self.at(arrival, _later)

    def deliver(self, n, fr, via_listener=False, flags=None):
        """frame reception at node n: the receive thread calls ecu.notify()"""
        if n.silent:
            return
        can_id, ext, data, fd = fr
        ev = self.log({"ev": "rx", "node": n.name, "id": can_id, "data": list(data)})
        if via_listener:
            f = flags or {}
            ev["flags"] = {"ext": bool(f.get("ext", True)), "remote": bool(f.get("remote", False)),
                           "error": bool(f.get("error", False))}
        self.touch(n)
        top = self.depth == 0
        if top:
            self.clock_calls = 0
        self.depth += 1
        try:
            if via_listener:
                import can
                f = flags or {}
                msg = can.Message(arbitration_id=can_id, data=bytes(data),
                                  is_extended_id=f.get("ext", True),
                                  is_remote_frame=f.get("remote", False),
                                  is_error_frame=f.get("error", False),
                                  is_fd=fd, timestamp=self.now_us / 1e6,
                                  check=False)
                n.ecu._listeners[0].on_message_received(msg)
            else:
                n.ecu.notify(can_id, list(data), self.now_us / 1e6)
        except Spin:
            if top:                      # a handler that keeps asking for the time and never returns
                raise Runaway("notify() keeps polling the clock")
            raise
        except Exception as e:          # raised to the caller that fed the frame in
            ev["exc"] = type(e).__name__
        finally:
            self.depth -= 1
        if self.depth == 0:
            self.flush_pokes()
            self.flush_abs()

    def inject(self, n, can_id, data, fd=False, via_listener=False, flags=None):
        self.deliver(n, (can_id, True, list(data), fd), via_listener=via_listener, flags=flags)

    # ------------------------------------------------------------ job thread
    def poke(self, n):
        if n.dead or n.silent or n.held:
            return
        q = n.ecu._job_thread_wakeup_queue
        if q.n > 0 and q.sleep_until is not None:
            q.n -= 1                      # the blocked get() consumes one token
            q.sleep_until = None
            self.log({"ev": "wake", "node": n.name, "why": "token"})
            self.run_job(n)

    def flush_pokes(self):
        if self.depth > 0:
            return
        progress = True
        while progress:
            progress = False
            for n in self.nodes:
                q = n.ecu._job_thread_wakeup_queue
                if (not n.dead and not n.silent and not n.held
                        and q.n > 0 and q.sleep_until is not None):
                    self.poke(n)
                    progress = True

    def run_job(self, n):
        if n.dead or n.silent or n.held:
            return
        self.depth += 1
        self.clock_calls = 0
        prev_thread = CUR_THREAD[0]
        CUR_THREAD[0] = getattr(n.ecu, "_job_thread", None)       # threading.current_thread() inside the pass
        try:
            n.ecu._async_job_thread()
            # returned normally: the stop event was set
        except _Yield:
            pass
        except Spin:
            n.dead = "spin"
            self.log({"ev": "spin", "node": n.name})
        except Exception as e:
            n.dead = e
            self.log({"ev": "jobdead", "node": n.name, "exc": type(e).__name__, "msg": str(e)})
        finally:
            self.depth -= 1
            CUR_THREAD[0] = prev_thread
        self.touch(n)

    # ------------------------------------------------------------ scheduler
    def _candidates(self):
        cand = []
        if self.events:
            cand.append((self.events[0][0], 0, 0))
        for i, n in enumerate(self.nodes):
            su = n.ecu._job_thread_wakeup_queue.sleep_until
            if su is not None and not n.dead and not n.silent and not n.held:
                cand.append((su, 1, i))
        return cand

    def step(self):
        cand = self._candidates()
        if not cand:
            return False
        t, kind, i = min(cand)
        if t > self.t_end:
            return False
        self.advance_to(t)
        if kind == 0:
            _, _, fn = heapq.heappop(self.events)
            fn()
            self.flush_pokes()
        else:
            n = self.nodes[i]
            n.ecu._job_thread_wakeup_queue.sleep_until = None
            self.log({"ev": "wake", "node": n.name, "why": "time"})
            self.run_job(n)
            self.flush_pokes()
        self.flush_abs()
        return True

    def run(self, dur_us):
        """run the event loop for dur_us of virtual time"""
        saved = self.t_end
        self.t_end = self.now_us + dur_us
        end = self.t_end
        self.flush_pokes()
        while self.step():
            pass
        self.advance_to(end)
        self.t_end = saved

    def run_until_idle(self, max_us=60_000_000, quiet_us=None):
        """run until no bus frame is pending and no session/timer wake-up is closer
        than the idle 5 s sleep, or max_us elapsed"""
        end = self.now_us + max_us
        while self.now_us < end:
            cand = self._candidates()
            if not cand:
                break
            t, kind, i = min(cand)
            if t > end:
                break
            if not self.events and not self.busy():
                break
            saved = self.t_end
            self.t_end = end
            ok = self.step()
            self.t_end = saved
            if not ok:
                break

    def busy(self):
        """some node has an open transport session / multi-pg buffer"""
        for n in self.nodes:
            if n.silent:
                continue
            d = n.ecu.j1939_dll
            if d._snd_buffer or d._rcv_buffer or getattr(d, "_multi_pg_snd_buffer", None):
                return True
        return False

    # -------------------------------------------------------------- app calls
    def api(self, n, op, fn, **args):
        """an application-thread call into node n; logged with its result"""
        ev = self.log(dict({"ev": "api", "node": n.name, "op": op}, **args))
        self.touch(n)
        top = self.depth == 0
        if top:
            self.clock_calls = 0
        self.depth += 1
        try:
            r = fn()
            ev["ret"] = r if isinstance(r, (bool, int, type(None), list, str)) else repr(r)
        except Spin:
            if top:
                raise Runaway("an application call keeps polling the clock")
            raise
        except BaseException as e:
            if isinstance(e, (_Yield, Runaway)):
                raise
            ev["exc"] = type(e).__name__
            ev["msg"] = str(e)
            r = e
        finally:
            self.depth -= 1
        if self.depth == 0:
            self.flush_pokes()
            self.flush_abs()
        return r

    def silence(self, n):
        n.silent = True
        self.log({"ev": "silence", "node": n.name})


def hexid(i):
    return "0x%08X" % i


class Peer:
    """a bus participant that is not a stack under test (the reference peer / an adversary).
    `on_frame(frame)` is called for every frame on the bus after `latency`; `send()` puts a frame on the bus."""

    def __init__(self, sim, name, latency=500):
        self.sim = sim
        self.name = name
        self.latency = latency
        self.on_frame = None
        sim.peers.append(self)

    def send(self, can_id, data, fd=False):
        sim = self.sim
        sim.log({"ev": "ptx", "node": self.name, "id": can_id, "data": list(data), "fd": bool(fd), "ext": True})
        fr = (can_id, True, list(data), bool(fd))
        idx = sim.nframes
        sim.nframes += 1
        for n in sim.nodes:
            lat = n.latency(fr) if callable(n.latency) else n.latency
            arrival = max(sim.now_us + max(lat, 1), n.last_arrival)
            n.last_arrival = arrival
            n.pending_rx += 1

            def _later(n=n, fr=fr):
                n.pending_rx -= 1
                sim.deliver(n, fr)
            sim.at(arrival, _later)


def _sim_init_peers(orig):
    def init(self, *a, **kw):
        orig(self, *a, **kw)
        self.peers = []
    return init


Sim.__init__ = _sim_init_peers(Sim.__init__)
_orig_broadcast = Sim.broadcast


def _broadcast_with_peers(self, src, fr):
    dropped_before = self.nframes
    silent = src.silent
    lost = (not silent) and self.drop is not None and self.drop(self.nframes, src, fr)
    # (the drop predicate is evaluated again inside; predicates are pure functions of idx)
    _orig_broadcast(self, src, fr)
    if silent or lost:
        return
    for p in self.peers:
        if p.on_frame is not None:
            self.at(self.now_us + max(1, p.latency), lambda p=p, fr=fr: p.on_frame(fr))


Sim.broadcast = _broadcast_with_peers
