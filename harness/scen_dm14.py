"""scenario runner for DM14 memory access (C17, C18, C19): a client stack and a serving stack with real
MemoryAccess objects, a scripted serving application, optionally an intruding third stack.

scenario = {"lat": [client, server], "seed_key": bool, "seeds": [..16 bit seeds the server hands out..],
  "key_k": int (the key algorithm is key(seed) = (seed * 3 + key_k) mod 65536; "client_k": a different k = wrong key),
  "server": {"absent": bool, "proceed": [bool per transaction], "respond": [ {"proceed": bool, "data": [...], "error": int, "edcp": int, "delay": us} ],
             "no_proceed_cb": bool},
  "ops": [ {"t": us (earliest start), "op": "read", "direct", "address", "count", "size", "signed", "raw", "timeout": us}
           {"op": "write", "direct", "address", "values": [...], "size", "timeout"} ],
  "intruder": [ {"after_frame": k, "sa": addr, "ptr": address, "cmd": 1|2, "count": n} ], "dur": us}
PDU level events are recorded (application calls into send_pgn, deliveries to an unfiltered listener), plus client
call / return, serving-application callbacks and the respond() call / return, and a projection of the three state
machines and the subscription lists whenever the system is at rest."""
import logging
import sys

import vt
import j1939

logging.disable(logging.CRITICAL)
ADDRS = (0xF9, 0xD4, 0xE0)        # client, server, intruder (scenario field "addrs" overrides)


def subs_names(ecu):
    out = []
    for d in ecu._subscribers:
        cb = d["cb"]
        out.append(getattr(cb, "__name__", "cb") if not hasattr(cb, "__self__") else type(cb.__self__).__name__ + "." + cb.__name__)
    return out


def _finish(sc, sim):
    kk = sc.get("key_k", 7)
    CLIENT, SERVER, INTR = sc.get("addrs", ADDRS)
    return {"cfg": {"C": {"x": 0}}, "ev": sim.trace, "expect": {"x": 0}, "sec": bool(sc.get("seed_key")), "key_k": kk,
            "client_k": sc.get("client_k", kk), "srv": SERVER, "expect_idle": bool(sc.get("expect_idle", True)),
            "self_intr": any(i.get("sa", INTR) == CLIENT for i in sc.get("intruder", [])), "meta": {"scenario": sc}}, sim


def run(sc):
    try:
        with vt.watchdog():
            return _run(sc)
    except vt.Runaway as e:          # e.g. a seed / key ping-pong that never ends
        sim = vt.CUR[0]
        sim.hang(e)
        return _finish(sc, sim)


def _run(sc):
    sim = vt.Sim(seed=sc.get("rseed", 0))
    CLIENT, SERVER, INTR = sc.get("addrs", ADDRS)
    lat = sc.get("lat", [700, 900])
    nodes = {}
    mem = {}
    kk = sc.get("key_k", 7)

    def keyfn(k):
        return lambda seed: (seed * 3 + k) % 65536
    for name, addr, la in (("C", CLIENT, lat[0]), ("S", SERVER, lat[1]), ("I", INTR, 500)):
        n = sim.add_node(name, latency=la, dll="j1939-21", max_cmdt_packets=sc.get("maxc", 255))
        ca = n.add_ca(addr)
        nodes[name] = (n, ca)

        def lcb(priority, pgn, sa, timestamp, data, n=n):
            if pgn in (0xD900, 0xD800, 0xD700) and data is not None and (len(data) < 8 or data[0] != 19 or pgn != 0xD700 or len(data) != 8 or True):
                sim.log({"ev": "pdu", "node": n.name, "pgn": pgn, "sa": sa, "data": list(data)})
        n.ecu.subscribe(lcb)
        orig = n.ecu.send_pgn

        def wrapped(dp, pf, ps, prio, sa, data, time_limit=0, frame_format=3, _n=n, _orig=orig):
            pgn = (pf << 8)
            if pgn in (0xD900, 0xD800, 0xD700):
                sim.log({"ev": "send", "node": _n.name, "pgn": pgn, "da": ps, "sa": sa, "data": list(data)})
            return _orig(dp, pf, ps, prio, sa, data, time_limit, frame_format)
        n.ecu.send_pgn = wrapped
    if not sc.get("server", {}).get("absent"):
        srv = j1939.MemoryAccess(nodes["S"][1])
        mem["S"] = srv
    cli = j1939.MemoryAccess(nodes["C"][1])
    mem["C"] = cli
    if sc.get("seed_key"):
        cli.set_seed_key_algorithm(keyfn(sc.get("client_k", kk)))
        if "S" in mem:
            mem["S"].set_seed_key_algorithm(keyfn(kk))
            seeds = list(sc.get("seeds", [0xA55A]))
            sidx = [0]

            def gen():
                s = seeds[sidx[0] % len(seeds)]
                sidx[0] += 1
                sim.log({"ev": "srv", "node": "S", "what": "seed", "seed": s})
                return s
            mem["S"].set_seed_generator(gen)
    server = sc.get("server", {})
    tx_no = [0]
    pr_no = [0]
    if "S" in mem:
        srvm = mem["S"]

        def proceed(command, address, pointer_type, length, object_count, key, source_addr, access_level, seed):
            ans = server.get("proceed", [True])
            a = ans[pr_no[0] % len(ans)]
            pr_no[0] += 1
            sim.log({"ev": "srv", "node": "S", "what": "proceed", "cmd": int(command), "address_lo": address & 0xFFFF, "address_hi": address >> 16,
                     "ptype": int(pointer_type), "count": int(object_count), "key": int(key) if key is not None else -1,
                     "sa": int(source_addr), "seed": int(seed) if seed is not None else -1, "ans": bool(a)})
            return a

        def notify():
            rs = server.get("respond", [{"proceed": True, "data": [1]}])
            r = rs[tx_no[0] % len(rs)]
            tx_no[0] += 1
            sim.log({"ev": "srv", "node": "S", "what": "notify"})

            def do_respond():
                ev = sim.log({"ev": "api", "node": "S", "op": "respond", "proceed": bool(r.get("proceed", True)), "data": list(r.get("data", [])),
                              "error": r.get("error", 0xFFFFFF), "edcp": r.get("edcp", 0xFF)})
                sim.depth += 1
                try:
                    ret = srvm.respond(r.get("proceed", True), list(r.get("data", [])), r.get("error", 0xFFFFFF), r.get("edcp", 0xFF),
                                       r.get("timeout", 3000000) / 1e6)
                    sim.log({"ev": "ret", "node": "S", "op": "respond", "ret": list(ret) if ret is not None else [], "none": ret is None})
                except BaseException as e:
                    if isinstance(e, (vt._Yield, vt.Spin, vt.Runaway)):
                        raise
                    sim.log({"ev": "ret", "node": "S", "op": "respond", "exc": type(e).__name__, "msg": str(e)[:200]})
                finally:
                    sim.depth -= 1
                sim.flush_pokes()
            sim.after(r.get("delay", 1000), do_respond)
        if not server.get("no_proceed_cb"):
            srvm.set_proceed(proceed)
        srvm.set_notify(notify)

    def proj(node):
        try:
            if node.name not in mem:
                return {"facade": 0, "query": 0, "server": 0, "sa": -1, "busy": 0, "subs": subs_names(node.ecu)}
            m = mem[node.name]
            return {"facade": m.state.value, "query": m.query.state.value, "server": m.server.state.value,
                    "sa": -1 if m.server.sa is None else m.server.sa, "busy": int(bool(m.server._busy)),
                    "subs": subs_names(node.ecu)}
        except (AttributeError, TypeError):
            return None
    sim.projector = proj
    # intruder: injected right after the k-th bus frame
    intr = {i["after_frame"]: i for i in sc.get("intruder", [])}

    def on_frame(idx, src, fr):
        i = intr.get(idx)
        if i is not None and src is not nodes["I"][0]:
            def go(i=i):
                n, ca = nodes["I"]
                ptr = i["ptr"]
                data = [i.get("count", 1), (1 << 4) + (i.get("cmd", 1) << 1) + 1] + list(ptr.to_bytes(4, "little")) + [7, 0]
                sa = i.get("sa", INTR)
                sim.log({"ev": "intr", "node": "I", "sa": sa, "ptr_lo": ptr & 0xFFFF, "ptr_hi": ptr >> 16})
                n.ecu.send_pgn(0, 0xD9, SERVER, 6, sa, data)
            if i.get("reentrant"):
                # zero latency: the intruding request reaches the serving stack while the sender of frame k is still inside
                # its send call (if that sender is the serving stack itself: re-entrantly)
                srv_node = nodes["S"][0]
                saved = srv_node.latency
                srv_node.latency = 0
                try:
                    go()
                finally:
                    srv_node.latency = saved
            else:
                sim.after(1, go)
    sim.on_frame = on_frame
    for nm in ("C", "S"):           # the initial projection (before any operation)
        sim.touch(nodes[nm][0])
    sim.flush_abs()
    t0 = sim.now_us
    for o in sc["ops"]:
        if t0 + o.get("t", 0) > sim.now_us:
            sim.run(t0 + o["t"] - sim.now_us)
        n, ca = nodes["C"]
        args = {"direct": o["direct"], "timeout": o.get("timeout", 1000000), "address_lo": o["address"] & 0xFFFF, "address_hi": o["address"] >> 16}
        size = o.get("size", 1)
        if o["op"] == "read":
            sim.log(dict({"ev": "api", "node": "C"}, **dict(args, op="dm14_read", count=o["count"])))
            call = lambda: cli.read(SERVER, o["direct"], o["address"], o["count"], o.get("size", 1), o.get("signed", False),
                                    o.get("raw", False), o.get("timeout", 1000000) / 1e6)
        else:
            wbytes = []
            for v in o["values"]:
                wbytes.extend(int(v).to_bytes(size, "little"))
            sim.log(dict({"ev": "api", "node": "C"}, **dict(args, op="dm14_write", count=len(o["values"]), bytes=wbytes)))
            call = lambda: cli.write(SERVER, o["direct"], o["address"], list(o["values"]), o.get("size", 1), o.get("timeout", 1000000) / 1e6)
        sim.depth += 1
        try:
            r = call()
            rb = []
            if r is not None:
                if o["op"] == "read" and not o.get("raw", False):
                    for v in r:
                        rb.extend(int(v).to_bytes(size, "little", signed=o.get("signed", False)))
                else:
                    rb = [int(x) for x in r]
            sim.log({"ev": "ret", "node": "C", "op": "dm14_" + o["op"], "ret_bytes": rb, "none": r is None,
                     "pyret": repr(r)[:120]})
        except BaseException as e:
            if isinstance(e, (vt._Yield, vt.Spin, vt.Runaway)):
                raise
            import re
            m = re.search(r"error: (0x[0-9a-fA-F]+)", str(e))
            sim.log({"ev": "ret", "node": "C", "op": "dm14_" + o["op"], "exc": type(e).__name__, "msg": str(e)[:200],
                     "code": int(m.group(1), 16) if m else -1})
        finally:
            sim.depth -= 1
        sim.flush_pokes()
        sim.touch(n)
        sim.flush_abs()
        sim.run(o.get("gap", 200000))
    sim.run(sc.get("dur", 1_500_000))
    for nm in ("C", "S"):
        sim.touch(nodes[nm][0])
    sim.flush_abs()
    sim.log({"ev": "end", "node": "C"})
    return _finish(sc, sim)


if __name__ == "__main__":
    import json
    sc = json.loads(sys.argv[1])
    tr, sim = run(sc)
    for e in tr["ev"]:
        if e["ev"] in ("api", "ret", "srv", "send", "pdu", "intr", "jobdead", "spin") or (e["ev"] == "abs" and e["node"] in ("C", "S") and "-v" in sys.argv):
            print(json.dumps(e)[:240])
