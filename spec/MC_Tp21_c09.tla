---------------------------- MODULE MC_Tp21_c09 -----------------------------
(* C09 model: three stacks with windows 1 / 3 / 2, 4-packet transfers around the ring (several CTS   *)
(* per transfer), B handles frames re-entrantly (latency 0): flow control on the bus (BusOk).        *)
EXTENDS Tp21
Lst(a) == << [tag |-> "ecu", kind |-> "all", adr |-> -1] >>
MC_Nodes == {"A", "B", "C"}
MC_NodeCfg == [n \in MC_Nodes |->
    CASE n = "A" -> [maxc |-> 1, bamInt |-> 50, cmdtInt |-> -1, paceMax |-> -1, cas |-> <<16>>, lst |-> Lst(16), lat |-> 1]
      [] n = "B" -> [maxc |-> 3, bamInt |-> 50, cmdtInt |-> -1, paceMax |-> -1, cas |-> <<32>>, lst |-> Lst(32), lat |-> 0]
      [] n = "C" -> [maxc |-> 2, bamInt |-> 50, cmdtInt |-> -1, paceMax |-> -1, cas |-> <<48>>, lst |-> Lst(48), lat |-> 1]]
Pay(n, s) == [i \in 1..n |-> (s * 16 + i) % 256]
M(src, sa, pf, ps, n, s) == [src |-> src, sa |-> sa, dp |-> 0, pf |-> pf, ps |-> ps, prio |-> 6, data |-> Pay(n, s)]
MC_Msgs == << M("A", 16, 208, 32, 23, 1), M("B", 32, 208, 48, 28, 2), M("C", 48, 208, 16, 22, 3) >>
=============================================================================
