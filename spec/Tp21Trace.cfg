SPECIFICATION Spec
CONSTANTS
  T1 = 750000
  T2 = 1250000
  T3 = 1250000
  Th = 500000
  IdleSleep = 5000000
  WakeLat = 1
INVARIANT Verdict
CHECK_DEADLOCK FALSE
