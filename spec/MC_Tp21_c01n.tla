---------------------------- MODULE MC_Tp21_c01n----------------------------
(* C01 model: three stacks, concurrent transfers in both directions plus a   *)
(* broadcast, mixed latencies (B handles frames re-entrantly), no faults.    *)
EXTENDS Tp21
Lst(a) == << [tag |-> "ecu", kind |-> "all", adr |-> -1], [tag |-> "ca", kind |-> "ca", adr |-> a] >>
MC_Nodes == {"A", "B", "C"}
MC_NodeCfg == [n \in MC_Nodes |->
    CASE n = "A" -> [maxc |-> 1, bamInt |-> 50, cmdtInt |-> -1, paceMax |-> -1, cas |-> <<16>>, lst |-> Lst(16), lat |-> 0]
      [] n = "B" -> [maxc |-> 2, bamInt |-> 50, cmdtInt |-> -1, paceMax |-> -1, cas |-> <<32>>, lst |-> Lst(32), lat |-> 0]
      [] n = "C" -> [maxc |-> 3, bamInt |-> 50, cmdtInt |-> -1, paceMax |-> -1, cas |-> <<48>>, lst |-> Lst(48), lat |-> 1]]
Pay(n, s) == [i \in 1..n |-> (s * 16 + i) % 256]
MC_Msgs == << [src |-> "A", sa |-> 16, dp |-> 0, pf |-> 208, ps |-> 32, prio |-> 6, data |-> Pay(15, 1)],
              [src |-> "B", sa |-> 32, dp |-> 0, pf |-> 208, ps |-> 16, prio |-> 6, data |-> Pay(9, 2)],
              [src |-> "C", sa |-> 48, dp |-> 0, pf |-> 254, ps |-> 18, prio |-> 6, data |-> Pay(10, 3)] >>
=============================================================================
