SPECIFICATION Spec
CONSTANTS
  T1 = 750
  T2 = 1250
  T3 = 1250
  Th = 500
  T5 = 3000
  IdleSleep = 5000
  WakeLat = 1
  NCm = 2
  NBam = 1
  Lens = {1, 2, 8, 27, 28, 29, 30, 52, 55, 56, 57, 60}
INVARIANT FrameLegal
INVARIANT FillExact
INVARIANT EachOnce
INVARIANT StackAgrees
CHECK_DEADLOCK FALSE
