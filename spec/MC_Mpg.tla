------------------------------- MODULE MC_Mpg -------------------------------
(***************************************************************************)
(* C11, arithmetic part: three parameter groups of lengths a, b, c (every  *)
(* combination = one initial state) submitted with a time limit for the    *)
(* same (frame format, source, destination) are placed by Tp22Core's       *)
(* MpgPlace into the chain of collection buffers and flushed.  Every frame *)
(* must be at most 64 bytes long with a legal CAN FD length, and the       *)
(* reference decoder of Codec (padding skipped) must recover exactly the   *)
(* submitted groups, in order, each once.                                  *)
(***************************************************************************)
EXTENDS Tp22Core
CONSTANT Lens
VARIABLES a, b, c
Init == a \in Lens /\ b \in Lens /\ c \in Lens
Next == UNCHANGED <<a, b, c>>
Spec == Init /\ [][Next]_<<a, b, c>>

Grp(n, s) == [prio |-> 3 + s, cpgn |-> 53248 + 256 * s, data |-> [i \in 1..n |-> (i * 7 + s) % 256], tl |-> 100]
Placed == LET n1 == MpgPlace(InitNode, FEFF, 0, 16, 32, Grp(a, 1), 100)
              n2 == MpgPlace(n1, FEFF, 0, 16, 32, Grp(b, 2), 100)
          IN MpgPlace(n2, FEFF, 0, 16, 32, Grp(c, 3), 100)
Frames == [i \in 1..Len(Placed.mpg) |-> MpgFrame(FEFF, Placed.mpg[i].cpgs, 16, 32)]
RECURSIVE Cat(_)
Cat(s) == IF s = <<>> THEN <<>> ELSE Head(s) \o Cat(Tail(s))
Decoded == Cat([i \in 1..Len(Frames) |-> MpgDecode(Frames[i].data)])

FrameLegal == \A i \in 1..Len(Frames) : Len(Frames[i].data) \in FdLengths /\ Len(Frames[i].data) <= 64
FillExact  == \A i \in 1..Len(Placed.mpg) : Placed.mpg[i].fill = Len(MpgBody(Placed.mpg[i].cpgs)) /\ Placed.mpg[i].fill <= 64
\* each group exactly once (the order on the bus may differ from the submission order: a later small group may
\* still join an earlier buffer)
EachOnce   == /\ Len(Decoded) = 3
              /\ \A k \in 1..3 : \E i \in 1..3 : Decoded[i].cpgn = Grp(<<a, b, c>>[k], k).cpgn /\ Decoded[i].data = Grp(<<a, b, c>>[k], k).data
              /\ \A i \in 1..3 : ~Decoded[i].short /\ Decoded[i].tos = 2 /\ Decoded[i].tf = 0
\* the stack's own unpacking (OnMpg) agrees with the reference decoder
Lst0 == [lst |-> << [tag |-> "x", kind |-> "all", adr |-> -1] >>, cas |-> <<>>]
StackAgrees == \A i \in 1..Len(Frames) :
                  LET o == OnMpg(Lst0, 0, 16, 32, Frames[i].data)  r == MpgDecode(Frames[i].data) IN
                  Len(o) = Len(r) /\ \A j \in 1..Len(o) : o[j].pgn = r[j].cpgn /\ o[j].data = r[j].data
=============================================================================
