---------------------------- MODULE TimersTrace -----------------------------
(***************************************************************************)
(* Trace validation for timers and subscriptions (C12, and the cyclic part *)
(* of C16): executions of a real ECU recorded by harness/scen_timers.py    *)
(* are replayed against TimersCore (exact list semantics: which callback   *)
(* fires in which pass, every sleep time); on top the property monitor     *)
(* Reg* - independent of the list model - checks for every firing: never   *)
(* early, at most the wake latency late, k-th firing of a periodic timer   *)
(* within [t0 + k*delta, t0 + k*delta + L] (no drift), one-shot once,      *)
(* nothing after remove_timer / unsubscribe, nothing overdue at the end.   *)
(***************************************************************************)
EXTENDS TimersCore, MonTimers, Json, IOUtils

Batch == JsonDeserialize(IOEnv.TRACE_FILE)
VARIABLES tid, l, ts, subs, st, pendF, pendC, regs, unsub, bad
vars == <<tid, l, ts, subs, st, pendF, pendC, regs, unsub, bad>>
Tr == Batch[tid]
Ev == Tr.ev
\* callbacks are numbered 1..N; Tr.scripts[cb] = [ret, ops]
Script(cb) == Tr.scripts[cb]

Init == /\ tid \in 1..Len(Batch) /\ l = 1
        /\ ts = InitT /\ subs = <<>>
        /\ st = "idle"            \* "idle" asleep, "woken", "pass" (callbacks may follow), "again"
        /\ pendF = <<>> /\ pendC = <<>>
        /\ regs = <<>>            \* monitor: sequence indexed by rid of [cb, delta, t0, fired, alive]
        /\ unsub = {}             \* monitor: callbacks for which unsubscribe() has returned
        /\ bad = {}

S(a, b, c, d, e, f, g) == [ts |-> a, subs |-> b, st |-> c, pendF |-> d, pendC |-> e, regs |-> f, unsub |-> g, bad |-> {}]
Keep == S(ts, subs, st, pendF, pendC, regs, unsub)
Fail(why) == [Keep EXCEPT !.bad = {why}]

RegFire(rg, rid, tt) == RegFireS(Script, rg, rid, tt, Tr.slack, WakeLat)
Overdue(rg, tt) == OverdueS(rg, tt, Tr.slack, WakeLat)

Apply(e) ==
    CASE e.ev = "api" /\ e.op = "add_timer" ->
           S(AddTimer(ts, e.cb, e.delta, e.t), subs, st, pendF, pendC,
             RegOps(regs, <<[op |-> "add", cb |-> e.cb, delta |-> e.delta]>>, e.t), unsub)
      [] e.ev = "api" /\ e.op = "remove_timer" ->
           S(RemoveTimer(ts, e.cb), subs, st, pendF, pendC, RegOps(regs, <<[op |-> "remove", cb |-> e.cb]>>, e.t), unsub)
      [] e.ev = "api" /\ e.op = "subscribe" -> S(ts, Append(subs, e.cb), st, pendF, pendC, regs, unsub \ {e.cb})
      [] e.ev = "api" /\ e.op = "unsubscribe" ->
           S(ts, SelectSeq(subs, LAMBDA c : c # e.cb), st, pendF, pendC, regs, unsub \cup {e.cb})
      [] e.ev = "rx" -> \* a broadcast frame: one callback per subscription, in order
           S(ts, subs, st, pendF, subs \o pendC, regs, unsub)
      [] e.ev = "cb" ->
           IF e.cb \in unsub THEN Fail("subscriber called after unsubscribe() returned")
           ELSE IF pendC # <<>> /\ Head(pendC) = e.cb THEN S(ts, subs, st, pendF, Tail(pendC), regs, unsub)
           ELSE Fail("subscriber callback differs from the subscription list of the specification")
      [] e.ev = "wake" ->
           IF st # "idle" THEN Fail("wake while running")
           ELSE IF e.why = "token"
           THEN IF ts.tok > 0 THEN S([ts EXCEPT !.tok = @ - 1, !.su = None], subs, "woken", pendF, pendC, regs, unsub)
                ELSE S([ts EXCEPT !.su = None], subs, "woken", pendF, pendC, regs, unsub)      \* a redundant wake-up: harmless
           ELSE IF ts.su = e.t THEN S([ts EXCEPT !.su = None], subs, "woken", pendF, pendC, regs, unsub)
                ELSE Fail("wake-up time differs from the sleep the specification computed")
      [] e.ev = "job" ->
           IF pendF # <<>> THEN Fail("a due callback was not called in the previous pass")
           ELSE IF st \notin {"woken", "again", "pass"} /\ ~(st = "idle" /\ ts.su = None) THEN Fail("pass without wake-up")
           ELSE LET r == JobPass(Script, ts, e.t) IN
                S(r.ts, subs, IF r.slept THEN "sleeping" ELSE IF r.until = 0 /\ ~r.slept THEN "again" ELSE "pass",
                  r.fired, pendC, regs, unsub)
      [] e.ev = "timer" ->
           IF pendF = <<>> \/ Head(pendF).rid # e.rid \/ Head(pendF).cb # e.cb \/ Head(pendF).t # e.t
           THEN (LET m == RegFire(regs, e.rid, e.t) IN
                 IF m.bad # {} THEN [Keep EXCEPT !.bad = m.bad]
                 ELSE Fail("timer callback differs from the one the specification fires next"))
           ELSE LET m == RegFire(regs, e.rid, e.t) IN
                IF m.bad # {} THEN [Keep EXCEPT !.bad = m.bad]
                ELSE S(ts, subs, st, Tail(pendF), pendC, m.rg, unsub)
      [] e.ev = "sleep" ->
           IF pendF # <<>> THEN Fail("a due callback was not called before sleeping")
           ELSE IF e.tok = 1
           THEN IF st = "again" THEN S(ts, subs, "again", pendF, pendC, regs, unsub)
                ELSE IF st = "sleeping" THEN S([ts EXCEPT !.su = None], subs, "again", pendF, pendC, regs, unsub)   \* redundant token
                ELSE Fail("token consumed where the specification has none")
           \* sleeping shorter than necessary is harmless (an extra pass); sleeping longer serves a timer late
           ELSE IF st = "sleeping" /\ e.until <= ts.su /\ e.until > e.t THEN S([ts EXCEPT !.su = e.until], subs, "idle", pendF, pendC, regs, unsub)
                ELSE Fail("sleep time differs from the specification (a timer would be served late)")
      [] e.ev = "hang" -> Fail("a call into the stack does not return / the stacks produce events without end")
      [] e.ev = "jobdead" -> Fail("job thread died")
      [] e.ev = "spin" -> Fail("job thread busy-spins")
      [] e.ev \in {"abs", "end", "note", "tx"} -> Keep
      [] OTHER -> Fail("unknown event")

Done == l > Len(Ev)
Step ==
    /\ bad = {} /\ ~Done
    /\ LET r0 == Apply(Ev[l])
           r == IF r0.bad = {} /\ Ev[l].ev \in {"end", "wake", "job"} /\ Overdue(r0.regs, Ev[l].t)
                THEN [r0 EXCEPT !.bad = {"a registered timer is overdue (delayed or suppressed by another one)"}] ELSE r0 IN
       /\ ts' = r.ts /\ subs' = r.subs /\ st' = r.st /\ pendF' = r.pendF /\ pendC' = r.pendC
       /\ regs' = r.regs /\ unsub' = r.unsub
       /\ bad' = IF r.bad = {} /\ l = Len(Ev) /\ (r.pendF # <<>> \/ r.pendC # <<>>) THEN {"predicted callback never happened"} ELSE r.bad
       /\ l' = IF r.bad = {} THEN l + 1 ELSE l
    /\ UNCHANGED tid
Spec == Init /\ [][Step]_vars
Verdict == IF bad # {} THEN PrintT(<<"VERDICT", tid, l, bad>>)
           ELSE IF Done THEN PrintT(<<"VERDICT", tid, l, {}>>) ELSE TRUE
=============================================================================
