----------------------------- MODULE MC_Claim2 ------------------------------
(* two fixed CAs and one arbitrary one in the immediate range (address 10): claims collide in flight, A and B  *)
(* deliver re-entrantly (latency 0); the arbitrary one has the LOWEST name.                                    *)
EXTENDS Claim
Nm(k) == <<k, 0, 0, 0, 0, 0, 0, 16>>
NmA(k) == <<k, 0, 0, 0, 0, 0, 0, 128>>
NmLowA(k) == <<k, 0, 0, 0, 0, 0, 0, 128>>
MC_Nodes == {"A", "B", "C"}
MC_CaCfg == [n \in MC_Nodes |->
   CASE n = "A" -> [name |-> <<5, 0, 0, 0, 0, 0, 0, 32>>,  pref |-> 10, aac |-> FALSE, lat |-> 0, starts |-> {0, 50}, delays |-> {0, 500}]
     [] n = "B" -> [name |-> <<4, 0, 0, 0, 0, 0, 0, 32>>,  pref |-> 10, aac |-> FALSE, lat |-> 0, starts |-> {0, 300}, delays |-> {0}]
     [] n = "C" -> [name |-> <<9, 0, 0, 0, 0, 0, 0, 128>>, pref |-> 11, aac |-> TRUE,  lat |-> 1, starts |-> {0, 600}, delays |-> {0, 100}]]
=============================================================================
