SPECIFICATION Spec
CONSTANTS
  VetoT = 250
  ClaimT = 500
  IdleSleep = 5000
  WakeLat = 1
INVARIANT OnlyAddressed
INVARIANT NoAddressNoDelivery
INVARIANT ForeignIsInert
INVARIANT ExactlyAddressed
INVARIANT ClaimAnswered
INVARIANT NoStateChange
CHECK_DEADLOCK FALSE
