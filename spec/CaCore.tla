------------------------------- MODULE CaCore -------------------------------
(***************************************************************************)
(* Controller applications (controller_application.py) on an ECU:          *)
(* address claiming (claim timer, contention by NAME), the request PGN,    *)
(* the send guards, and the part of notify() that dispatches single        *)
(* frames to them and to the listeners (J1939-21 dispatch rules).          *)
(* A CA is  [st, pref, ann, adr, name (8 bytes, LSB first), aac, started]  *)
(* A node   [cas (sequence of CAs), tms (timer list: [ca, dl]), tok, su]   *)
(* The claim timer is a one-shot that re-arms itself (add_timer in the     *)
(* callback); the job loop serves the list with the snapshot semantics of  *)
(* TimersCore.  State updates come before the emitted frame (a contending  *)
(* reply may be processed inside the send call).                           *)
(***************************************************************************)
EXTENDS Addr, TLC

CONSTANTS VetoT, ClaimT, IdleSleep, WakeLat     \* 250 ms, 500 ms, 5 s, job wake latency
NONE == 0  WAIT_VETO == 1  NORMAL == 2  CANNOT_CLAIM == 3
NoAdr == -1                                     \* Python None
None == -1
PGN_ACLAIM == 60928
PGN_REQ == 59904

InitCa(name, pref, aac) == [st |-> NONE, pref |-> pref, ann |-> NULLADDR, adr |-> NULLADDR, name |-> name,
                            aac |-> aac, started |-> FALSE]
BypassCa(name, pref, aac) == [st |-> NORMAL, pref |-> pref, ann |-> pref, adr |-> pref, name |-> name,
                              aac |-> aac, started |-> FALSE]
InitNode(cas) == [cas |-> cas, tms |-> <<>>, tok |-> 0, su |-> None]

\* the address a CA currently holds (the `device_address` property)
Held(ca) == IF ca.st = NORMAL THEN ca.adr ELSE NULLADDR
CaTakes(ca, dest) == ca.st = NORMAL /\ (dest = GLOBAL \/ ca.adr = dest)        \* message_acceptable

TxClaim(ca, from) == [k |-> "tx", id |-> MkId(6, 0, 0, PF_ACLAIM, GLOBAL, from % 256), data |-> ca.name, fd |-> FALSE]
InVetoRange(a) == a > 127 /\ a < 248

\* _process_claim_async: [ca, out, tts]
ClaimAsync(ca) ==
    IF ca.st = NONE /\ ca.pref # NoAdr
    THEN IF InVetoRange(ca.pref)
         THEN [ca |-> [ca EXCEPT !.ann = ca.pref, !.st = WAIT_VETO], out |-> <<TxClaim(ca, ca.pref)>>, tts |-> VetoT]
         ELSE [ca |-> [ca EXCEPT !.ann = ca.pref, !.adr = ca.pref, !.st = NORMAL], out |-> <<TxClaim(ca, ca.pref)>>, tts |-> ClaimT]
    ELSE IF ca.st = WAIT_VETO
    THEN [ca |-> [ca EXCEPT !.adr = ca.ann, !.st = NORMAL], out |-> <<>>, tts |-> ClaimT]
    ELSE [ca |-> ca, out |-> <<>>, tts |-> ClaimT]

\* _process_addressclaim: a claim for address sa carrying NAME nm
OnClaim(ca, sa, nm) ==
    IF ~((ca.st = NORMAL /\ sa = ca.adr) \/ (ca.st = WAIT_VETO /\ sa = ca.ann)) THEN [ca |-> ca, out |-> <<>>]
    ELSE IF nm = ca.name THEN [ca |-> ca, out |-> <<>>]
    ELSE IF NameLess(nm, ca.name)
    THEN \* the contender has the lower NAME: we lose the address
         IF ~ca.aac
         THEN LET c2 == [ca EXCEPT !.st = CANNOT_CLAIM, !.adr = NoAdr] IN [ca |-> c2, out |-> <<TxClaim(c2, NULLADDR)>>]
         ELSE LET c2 == [ca EXCEPT !.adr = NULLADDR, !.ann = @ + 1, !.st = WAIT_VETO] IN [ca |-> c2, out |-> <<TxClaim(c2, c2.ann)>>]
    ELSE \* we keep it: repeat our claim
         [ca |-> ca, out |-> <<TxClaim(ca, IF ca.st = NORMAL THEN ca.adr ELSE ca.ann)>>]

\* _process_request (after the message_acceptable gate of notify): [out]; rq = request callbacks registered (count)
OnRequest(ca, tag, sa, dest, d) ==
    IF Len(d) < 3 THEN [exc |-> TRUE, out |-> <<>>]
    ELSE LET pgn == Rd3(d, 1) IN
         IF ca.st # NORMAL \/ (ca.adr # dest /\ dest # GLOBAL) THEN [exc |-> FALSE, out |-> <<>>]
         ELSE IF pgn = PGN_ACLAIM THEN [exc |-> FALSE, out |-> <<TxClaim(ca, ca.adr)>>]
         ELSE [exc |-> FALSE, out |-> << [k |-> "req", tag |-> tag, sa |-> sa, dest |-> dest, pgn |-> pgn] >>]

(******************************* send guards *******************************)
\* ca.send_pgn / ca.send_message (<= 8 bytes here): raises unless operational, else one frame from the held address
TrySendPgn(ca, dp, pf, ps, prio, data) ==
    IF ca.st # NORMAL THEN [raises |-> TRUE, out |-> <<>>]
    ELSE [raises |-> FALSE, out |-> << [k |-> "tx", id |-> MkId(prio, 0, dp, pf, ps, ca.adr), data |-> data, fd |-> FALSE] >>]
TrySendMessage(ca, prio, pgn, data) ==
    IF ca.st # NORMAL THEN [raises |-> TRUE, out |-> <<>>]
    ELSE [raises |-> FALSE, out |-> << [k |-> "tx", id |-> prio * (2^26) + (pgn % 262144) * 256 + ca.adr, data |-> data, fd |-> FALSE] >>]
\* ca.send_request(data_page, pgn, destination): request for address claim may be sent from the null address
TrySendRequest(ca, dp, pgn0, dest) ==
    LET pgn == IF dp % 2 = 1 /\ (pgn0 \div 65536) % 2 = 0 THEN pgn0 + 65536 ELSE pgn0    \* the data page belongs to the requested PGN
    IN
    IF ca.st # NORMAL /\ pgn # PGN_ACLAIM THEN [raises |-> TRUE, out |-> <<>>]
    ELSE LET from == IF ca.st # NORMAL THEN NULLADDR ELSE ca.adr IN
         [raises |-> FALSE, out |-> << [k |-> "tx", id |-> MkId(6, 0, 0, PF_REQ, dest % 256, from), data |-> ReqBytes(pgn), fd |-> FALSE] >>]

(********************************* notify **********************************)
\* cfg.lst: ECU-level listeners and CA listeners ([tag, kind "all"/"int"/"ca", adr (int) or ca (index)])
NodeAccepts(ns, cfg, dest) ==
    \/ \E i \in 1..Len(cfg.lst) : cfg.lst[i].kind = "int" /\ cfg.lst[i].adr = dest
    \/ \E i \in 1..Len(ns.cas) : CaTakes(ns.cas[i], dest)
LTakes(ns, l, dest) ==
    \/ l.kind = "all" \/ dest = GLOBAL
    \/ (l.kind = "int" /\ l.adr = dest)
    \/ (l.kind = "ca" /\ CaTakes(ns.cas[l.ca], dest))
DeliverTo(ns, cfg, prio, pgn, sa, dest, data) ==
    LET sel == SelectSeq(cfg.lst, LAMBDA l : LTakes(ns, l, dest))
    IN [i \in 1..Len(sel) |-> [k |-> "cb", tag |-> sel[i].tag, prio |-> prio, pgn |-> pgn, sa |-> sa, data |-> data]]

\* every CA processes an address-claimed frame, in order; the outputs are concatenated
RECURSIVE ClaimAll(_, _, _, _)
ClaimAll(cas, i, sa, nm) ==
    IF i > Len(cas) THEN [cas |-> cas, out |-> <<>>]
    ELSE LET r == OnClaim(cas[i], sa, nm)
             rest == ClaimAll([cas EXCEPT ![i] = r.ca], i + 1, sa, nm)
         IN [cas |-> rest.cas, out |-> r.out \o rest.out]
RECURSIVE RequestAll(_, _, _, _, _, _)
RequestAll(ns, cfg, i, sa, dest, d) ==
    IF i > Len(ns.cas) THEN [exc |-> FALSE, out |-> <<>>]
    ELSE IF ~CaTakes(ns.cas[i], dest) THEN RequestAll(ns, cfg, i + 1, sa, dest, d)
    ELSE LET r == OnRequest(ns.cas[i], cfg.reqtag[i], sa, dest, d) IN
         IF r.exc THEN [exc |-> TRUE, out |-> <<>>]
         ELSE LET rest == RequestAll(ns, cfg, i + 1, sa, dest, d) IN [exc |-> rest.exc, out |-> r.out \o rest.out]

Notify(ns, cfg, id, d) ==
    LET pf == IdPf(id)  ps == IdPs(id)  dp == IdDp(id)  sa == IdSa(id)  prio == IdPrio(id)
        R0(n2, o) == [ns |-> n2, out |-> o, exc |-> FALSE, unmodeled |-> FALSE]
    IN
    IF IsPdu2(pf) THEN R0(ns, DeliverTo(ns, cfg, prio, dp * 65536 + pf * 256 + ps, sa, GLOBAL, d))
    ELSE IF ps # GLOBAL /\ ~NodeAccepts(ns, cfg, ps) THEN R0(ns, <<>>)
    ELSE CASE pf = PF_ACLAIM /\ dp = 0 ->
                IF Len(d) # 8 THEN [ns |-> ns, out |-> <<>>, exc |-> FALSE, unmodeled |-> TRUE]
                ELSE LET r == ClaimAll(ns.cas, 1, sa, d) IN R0([ns EXCEPT !.cas = r.cas], r.out)
           [] pf = PF_REQ /\ dp = 0 ->
                LET r == RequestAll(ns, cfg, 1, sa, ps, d) IN
                IF r.exc THEN [ns |-> ns, out |-> <<>>, exc |-> TRUE, unmodeled |-> FALSE] ELSE R0(ns, r.out)
           [] pf \in {PF_TPCM, PF_TPDT} /\ dp = 0 -> [ns |-> ns, out |-> <<>>, exc |-> FALSE, unmodeled |-> TRUE]
           [] OTHER -> R0(ns, DeliverTo(ns, cfg, prio, dp * 65536 + pf * 256, sa, ps, d))

(******************************** job loop *********************************)
\* ca.start(claim_delay)
Start(ns, i, delay, clk) ==
    IF ns.cas[i].started THEN ns
    ELSE [ns EXCEPT !.cas[i].started = TRUE, !.tms = Append(@, [ca |-> i, dl |-> clk + delay]), !.tok = @ + 1]

\* ca.stop(): the claim timer is removed (remove_timer wakes the job thread); the CA keeps its state and address
Stop(ns, i) ==
    IF ~ns.cas[i].started THEN ns
    ELSE [ns EXCEPT !.cas[i].started = FALSE, !.tms = SelectSeq(@, LAMBDA x : x.ca # i), !.tok = @ + 1]

\* one job pass: serve the claim timers (snapshot semantics); granule = one timer entry, so that a frame emitted
\* by a callback can be delivered (latency 0) before the next one fires.
\* pc: [ph "idle"] / [ph "t", snap (sequence of entries), nw, now] / [ph "end", nw, now]
PassBegin(ns, clk) == [ph |-> "t", snap |-> ns.tms, nw |-> clk + IdleSleep, now |-> clk]
SameEntry(a, b) == a.ca = b.ca /\ a.dl = b.dl
HasEntry(tms, e) == \E j \in 1..Len(tms) : SameEntry(tms[j], e)
DelEntry(tms, e) == LET j == CHOOSE x \in 1..Len(tms) : SameEntry(tms[x], e) /\ \A y \in 1..(x - 1) : ~SameEntry(tms[y], e)
                    IN SubSeq(tms, 1, j - 1) \o SubSeq(tms, j + 1, Len(tms))
Granule(ns, pc) ==
    IF pc.snap = <<>> THEN [ns |-> ns, pc |-> [ph |-> "end", nw |-> pc.nw, now |-> pc.now], out |-> <<>>]
    ELSE LET e == Head(pc.snap)   rest == [pc EXCEPT !.snap = Tail(@)] IN
         IF ~HasEntry(ns.tms, e) THEN [ns |-> ns, pc |-> rest, out |-> <<>>]
         ELSE IF e.dl > pc.now THEN [ns |-> ns, pc |-> [rest EXCEPT !.nw = Min2(@, e.dl)], out |-> <<>>]
         ELSE LET r == ClaimAsync(ns.cas[e.ca])
                  tms1 == Append(DelEntry(ns.tms, e), [ca |-> e.ca, dl |-> pc.now + r.tts])
              IN [ns |-> [ns EXCEPT !.cas[e.ca] = r.ca, !.tms = tms1, !.tok = @ + 1], pc |-> rest, out |-> r.out]
PassEnd(ns, pc, clk) ==
    IF pc.nw - clk > 0
    THEN IF ns.tok > 0 THEN [ns |-> [ns EXCEPT !.tok = @ - 1], slept |-> FALSE, until |-> 0]
         ELSE [ns |-> [ns EXCEPT !.su = pc.nw + WakeLat], slept |-> TRUE, until |-> pc.nw + WakeLat]
    ELSE [ns |-> ns, slept |-> FALSE, until |-> 0]
RECURSIVE RunToEmit(_, _)
RunToEmit(ns, pc) ==
    IF pc.ph # "t" THEN [ns |-> ns, pc |-> pc, out |-> <<>>]
    ELSE LET r == Granule(ns, pc) IN IF r.out # <<>> THEN r ELSE RunToEmit(r.ns, r.pc)
=============================================================================
