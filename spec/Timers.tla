------------------------------- MODULE Timers -------------------------------
(***************************************************************************)
(* Model of an otherwise idle ECU serving timers (C12): the application    *)
(* thread adds and removes registrations at arbitrary instants, callbacks  *)
(* are scripted (one-shot / periodic, nested add / remove also of          *)
(* themselves), the job thread sleeps until the earliest deadline or until *)
(* a wake-up token arrives.  TLC explores every history of up to MaxOps    *)
(* operations over the callbacks and periods of the configuration, with    *)
(* arbitrary idle gaps (Tick jumps to the next instant something is due).  *)
(***************************************************************************)
EXTENDS TimersCore, MonTimers

CONSTANTS Scripts,      \* sequence: callback k -> [ret, ops]
          Deltas,       \* periods the application may use
          MaxOps, Horizon
Script(cb) == Scripts[cb]
\* total time callbacks may keep the job thread busy (the lateness the property allows for)
RECURSIVE SumBusy(_)
SumBusy(i) == IF i = 0 THEN 0 ELSE Scripts[i].busy + SumBusy(i - 1)
Slack == 2 * SumBusy(Len(Scripts))
Cbs == 1..Len(Scripts)

VARIABLES ts, now, regs, monbad, nops, running
vars == <<ts, now, regs, monbad, nops, running>>

Init == /\ ts = [InitT EXCEPT !.su = IdleSleep + WakeLat]
        /\ now = 0 /\ regs = <<>> /\ monbad = {} /\ nops = 0 /\ running = FALSE

Apart == TRUE

AppAdd(cb, d) ==
    /\ ~running /\ nops < MaxOps /\ Apart
    /\ ts' = AddTimer(ts, cb, d, now)
    /\ regs' = RegOps(regs, <<[op |-> "add", cb |-> cb, delta |-> d]>>, now)
    /\ nops' = nops + 1
    /\ UNCHANGED <<now, monbad, running>>
AppRemove(cb) ==
    /\ ~running /\ nops < MaxOps /\ Apart
    /\ \E i \in 1..Len(ts.tms) : ts.tms[i].cb = cb
    /\ ts' = RemoveTimer(ts, cb)
    /\ regs' = RegOps(regs, <<[op |-> "remove", cb |-> cb]>>, now)
    /\ nops' = nops + 1
    /\ UNCHANGED <<now, monbad, running>>

\* the monitor sees every firing of a pass, in order
RECURSIVE FireAll(_, _, _)
FireAll(acc, fired, t) ==
    IF fired = <<>> THEN acc
    ELSE LET m == RegFireS(Script, acc.rg, Head(fired).rid, Head(fired).t, Slack, WakeLat) IN
         FireAll([rg |-> m.rg, bad |-> acc.bad \cup m.bad], Tail(fired), t)

Job ==
    /\ \/ running
       \/ ts.tok > 0
       \/ (ts.su # None /\ ts.su <= now)
    /\ LET ts0 == IF running THEN ts
                  ELSE IF ts.tok > 0 THEN [ts EXCEPT !.tok = @ - 1, !.su = None] ELSE [ts EXCEPT !.su = None]
           r == JobPass(Script, ts0, now)
           m == FireAll([rg |-> regs, bad |-> {}], r.fired, now)
       IN /\ ts' = r.ts
          /\ regs' = m.rg
          /\ monbad' = monbad \cup m.bad
          /\ running' = ~r.slept
    /\ now' = JobPass(Script, IF running THEN ts ELSE IF ts.tok > 0 THEN [ts EXCEPT !.tok = @ - 1, !.su = None] ELSE [ts EXCEPT !.su = None], now).clk
    /\ UNCHANGED nops

Tick ==
    /\ ~running /\ ts.tok = 0 /\ ts.su # None /\ ts.su > now
    /\ now' = ts.su
    /\ UNCHANGED <<ts, regs, monbad, nops, running>>
\* the application may also let any amount of time pass before its next operation
Idle(d) ==
    /\ ~running /\ ts.tok = 0 /\ nops < MaxOps /\ ts.su # None /\ now + d < ts.su
    /\ now' = now + d
    /\ UNCHANGED <<ts, regs, monbad, nops, running>>

Next == \/ \E cb \in Cbs, d \in Deltas : AppAdd(cb, d)
        \/ \E cb \in Cbs : AppRemove(cb)
        \/ Job \/ Tick
        \/ Idle(1)
Spec == Init /\ [][Next]_vars
Bound == now <= Horizon

\* C12: never early, never later than the wake latency, no drift, one-shot once, nothing after removal
MonOk == monbad = {}
\* C12: adding, expiring or removing one timer never delays or suppresses another
NoSuppression == ~OverdueS(regs, now, Slack, WakeLat)
\* the job thread never sleeps past a deadline it should serve
NoOversleep == (~running /\ ts.tok = 0 /\ ts.su # None) =>
                  \A i \in 1..Len(ts.tms) : ts.su <= ts.tms[i].dl + WakeLat \/ ts.tms[i].dl <= now
\* the monitor's view and the list agree on what is registered
Agree == ~running => \A rid \in 1..Len(regs) : regs[rid].alive <=> HasRid(ts.tms, rid)
=============================================================================
