SPECIFICATION Spec
CONSTANTS
  Ops <- MC_Ops
  Sec = TRUE
  SrvK = 7
  Seeds = {1, 65534}
  Responds <- MC_Responds
  Absent = FALSE
  Intruders <- MC_Intruders
  MaxIntr = 2
INVARIANT NoServiceWithoutKey
INVARIANT ServerToldTheRequest
INVARIANT IntruderNeverServed
INVARIANT BusyGoesToSender
INVARIANT Outcome
INVARIANT WriteStoresWritten
INVARIANT BothIdleAfter
CHECK_DEADLOCK FALSE
