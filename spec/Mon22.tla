------------------------------- MODULE Mon22 --------------------------------
(***************************************************************************)
(* Bus monitor for J1939-22 (FD) transport traffic (C02, C03, C09):        *)
(* decodes every FD.TP.CM / FD.TP.DT frame with the SAE layouts of Codec,  *)
(* reassembles every transfer independently of the stack and checks flow   *)
(* control, segment order, legal FD lengths and BAM pacing.                *)
(* The delivery monitor is Mon21's Dm* (with dll = 22).                    *)
(***************************************************************************)
EXTENDS Mon21

Bm22Init == <<>>
CKey22(sess, sa, da) == sess * 65536 + sa * 256 + da

Decodes22(c, acc, sa, da) ==
    \E i \in 1..Len(acc) :
        /\ acc[i].sa = sa /\ acc[i].da = da /\ acc[i].pgn = c.pgn
        /\ Len(acc[i].data) = c.size /\ c.total = NumSegments22(c.size)
        /\ Len(c.buf) >= c.size
        /\ SubSeq(c.buf, 1, c.size) = acc[i].data
        /\ \A j \in (c.size + 1)..Len(c.buf) : c.buf[j] = 255

(* multi-PG frames (C11): decoded by the reference decoder of Codec; every contained group must be a group  *)
(* somebody submitted for exactly this source, destination and frame format, not yet seen on the bus, and  *)
(* on the bus no later than its time limit after submission (plus the wake latency of the job thread: 1)   *)
SeenKey == -1
Seen(bm) == IF BHas(bm, SeenKey) THEN BGet(bm, SeenKey).seen ELSE {}
RECURSIVE MpgMatch(_, _, _, _, _, _, _)
MpgMatch(seen, acc, groups, sa, da, ff, t) ==
    IF groups = <<>> THEN [seen |-> seen, bad |-> {}]
    ELSE LET g == Head(groups)
             cand == {i \in 1..Len(acc) : /\ i \notin seen /\ Len(acc[i].data) <= 60 /\ acc[i].sa = sa /\ acc[i].da = da
                                           /\ acc[i].ff = ff /\ acc[i].pgn = g.cpgn /\ acc[i].data = g.data}
         IN IF g.short \/ g.tos # 2 \/ g.tf # 0 THEN [seen |-> seen, bad |-> {"multi-PG frame does not decode (header / length / padding)"}]
            ELSE IF cand = {} THEN [seen |-> seen, bad |-> {"multi-PG frame contains a group nobody submitted for this source, destination and frame format (or twice)"}]
            ELSE LET i == CHOOSE x \in cand : \A y \in cand : x <= y IN
                 IF t > acc[i].t + acc[i].tl + 1 THEN [seen |-> seen, bad |-> {"parameter group on the bus later than its time limit"}]
                 ELSE MpgMatch(seen \cup {i}, acc, Tail(groups), sa, da, ff, t)

Bm22Step(bm, acc, cfgs, n, e) ==
    LET pf == IdPf(e.id)  da == IdPs(e.id)  sa == IdSa(e.id)  d == e.data
        stack == e.ev = "tx"
        ok(b) == [bm |-> b, bad |-> {}]
        ko(why) == [bm |-> bm, bad |-> {why}]
        mpg == stack /\ (~e.ext \/ (pf = PF_MPG /\ IdDp(e.id) = 0 /\ IdEdp(e.id) = 0))
    IN
    IF mpg THEN
       IF Len(d) \notin FdLengths \/ Len(d) > 64 THEN ko("multi-PG frame length is not a legal CAN FD length")
       ELSE LET r == IF e.ext THEN MpgMatch(Seen(bm), acc, MpgDecode(d), sa, da, 3, e.t)
                     ELSE MpgMatch(Seen(bm), acc, MpgDecode(d), e.id % 256, GLOBAL, 2, e.t)
            IN IF r.bad # {} THEN [bm |-> bm, bad |-> r.bad]
               ELSE IF MpgDecode(d) = <<>> THEN ko("multi-PG frame without any parameter group")
               ELSE ok(BPut(bm, [key |-> SeenKey, seen |-> r.seen, bam |-> TRUE]))
    ELSE IF IdDp(e.id) # 0 \/ pf \notin {PF_FDCM, PF_FDDT} \/ ~e.ext THEN ok(bm)
    ELSE IF stack /\ Len(d) \notin FdLengths THEN ko("frame length is not a legal CAN FD length")
    ELSE IF pf = PF_FDCM THEN
       IF Len(d) < 12 THEN (IF stack THEN ko("FD.TP.CM shorter than 12 bytes") ELSE ok(bm))
       ELSE
       LET ctl == d[1] % 16   sess == d[1] \div 16   size == Rd3(d, 2)   segn == Rd3(d, 5)   pgn == Rd3(d, 10) IN
       CASE ctl = FC_RTS ->
              ok(BPut(bm, [key |-> CKey22(sess, sa, da), size |-> size, total |-> segn, limit |-> d[8], pgn |-> pgn,
                           hi |-> 0, nxt |-> 1, lastDt |-> -1, bam |-> FALSE, buf |-> <<>>, start |-> e.t, all |-> FALSE, fresh |-> TRUE]))
         [] ctl = FC_BAM ->
              ok(BPut(bm, [key |-> CKey22(sess, sa, da), size |-> size, total |-> segn, limit |-> 255, pgn |-> pgn,
                           hi |-> segn, nxt |-> 1, lastDt |-> -1, bam |-> TRUE, buf |-> <<>>, start |-> e.t, all |-> FALSE, fresh |-> FALSE]))
         [] ctl = FC_CTS ->
              IF ~BHas(bm, CKey22(sess, da, sa)) THEN ok(bm)
              ELSE LET c == BGet(bm, CKey22(sess, da, sa))   num == d[8]   next == segn IN
                   IF stack /\ num > c.limit THEN ko("CTS grants more segments than the RTS allows")
                   ELSE IF stack /\ num > cfgs[n].maxc THEN ko("CTS grants more segments than the responder's configured maximum")
                   ELSE IF stack /\ num > 0 /\ num > c.total - next + 1 THEN ko("CTS grants more segments than remain")
                   ELSE IF num = 0 THEN ok(BPut(bm, [c EXCEPT !.hi = c.nxt - 1, !.fresh = TRUE]))
                   ELSE IF next < 1 \/ next > c.nxt THEN ok(BPut(bm, [c EXCEPT !.hi = c.nxt - 1]))   \* nothing sensible cleared
                   ELSE ok(BPut(bm, [c EXCEPT !.hi = next + num - 1, !.nxt = next, !.fresh = TRUE,
                                               !.buf = SubSeq(@, 1, Min2(Len(@), 60 * (next - 1)))]))
         [] ctl = FC_EOMS ->
              IF ~BHas(bm, CKey22(sess, sa, da)) THEN (IF stack THEN ko("end-of-message status without an open connection") ELSE ok(bm))
              ELSE LET c == BGet(bm, CKey22(sess, sa, da)) IN
                   IF stack /\ (size # c.size \/ segn # c.total \/ pgn # c.pgn) THEN ko("end-of-message status does not match the announcement")
                   ELSE IF stack /\ c.nxt <= c.total THEN ko("end-of-message status before all segments were on the bus")
                   ELSE IF stack /\ ~Decodes22(c, acc, sa, da) THEN ko("frames on the bus do not decode (SAE layout) to a submitted message")
                   ELSE ok(IF c.bam THEN BDel(bm, c.key) ELSE BPut(bm, [c EXCEPT !.buf = <<>>, !.all = TRUE]))
         [] ctl = FC_EOMA ->
              IF ~BHas(bm, CKey22(sess, da, sa)) THEN ok(bm)
              ELSE LET c == BGet(bm, CKey22(sess, da, sa)) IN
                   IF stack /\ (size # c.size \/ segn # c.total \/ pgn # c.pgn) THEN ko("end-of-message acknowledge does not match the RTS")
                   ELSE IF stack /\ ~c.all THEN ko("end-of-message acknowledge before the end-of-message status")
                   ELSE ok(BDel(bm, c.key))
         [] ctl = FC_ABORT ->
              \* an abort ends a connection but does not un-clear packets a CTS has cleared before (the stack
              \* finishes the window it was granted; the property is about clearance, not about aborts)
              ok(bm)
         [] OTHER -> IF stack THEN ko("undefined FD.TP.CM control type") ELSE ok(bm)
    ELSE \* FD.TP.DT
       IF Len(d) <= 4 THEN (IF stack THEN ko("FD.TP.DT without data") ELSE ok(bm))
       ELSE
       LET sess == d[1] \div 16   seqn == Rd3(d, 2) IN
       IF ~BHas(bm, CKey22(sess, sa, da))
       THEN IF stack THEN ko("data segment without an open connection") ELSE ok(bm)
       ELSE LET c == BGet(bm, CKey22(sess, sa, da))
                gap == e.t - (IF c.lastDt < 0 THEN c.start ELSE c.lastDt)
                c2 == [c EXCEPT !.nxt = seqn + 1, !.lastDt = e.t, !.buf = @ \o SubSeq(d, 5, Len(d)), !.fresh = FALSE]
            IN
            IF stack /\ d[1] % 16 # 0 THEN ko("data transfer format indicator is not 0")
            ELSE IF stack /\ seqn # c.nxt THEN ko("data segment out of sequence")
            ELSE IF stack /\ seqn > c.hi THEN ko("data segment not cleared by a CTS")
            ELSE
            LET \* clauses about WHEN the segment is sent do not stop the monitor from following the connection
                late == IF stack /\ c.bam /\ gap < cfgs[n].bamInt THEN {"BAM data segments closer than the minimum interval"}
                        ELSE IF stack /\ ~c.bam /\ cfgs[n].cmdtInt >= 0 /\ c.lastDt >= 0 /\ gap < cfgs[n].cmdtInt
                        THEN (IF c.fresh THEN {"connection-mode data segments closer than the configured minimum interval (first segment after a CTS)"}
                              ELSE {"connection-mode data segments closer than the configured minimum interval (within a window)"})
                        ELSE IF stack /\ c.bam /\ cfgs[n].paceMax >= 0 /\ gap > cfgs[n].paceMax THEN {"BAM data segments further apart than allowed"}
                        ELSE {}
            IN
            IF stack /\ seqn < c.total /\ Len(d) # 64 THEN ko("intermediate data segment is not 64 bytes long")
            ELSE [bm |-> BPut(bm, c2), bad |-> late]
\* at the end of a scenario: every accepted parameter group of <= 60 bytes has been on the bus exactly once
Bm22Final(bm, acc, tr) ==
    IF tr.expect.all /\ \E i \in 1..Len(acc) : Len(acc[i].data) <= 60 /\ i \notin Seen(bm)
    THEN {"accepted parameter group never put on the bus"} ELSE {}
=============================================================================
