------------------------------ MODULE Dm14Core ------------------------------
(***************************************************************************)
(* Reference model of a DM14 memory-access transaction (SAE J1939-73       *)
(* DM14 / DM15 / DM16) at the level of parameter groups: what the client   *)
(* (Dm14Query behind MemoryAccess.read / write) and the serving side       *)
(* (MemoryAccess facade + DM14Server + the serving application) may put    *)
(* on the bus and hand to their applications, and when.  It is shaped      *)
(* after the protocol the code implements, not after its subscription      *)
(* juggling; Dm14.tla explores it with an intruder, failures and           *)
(* histories, Dm14Trace.tla checks executions of the real objects          *)
(* against it.                                                             *)
(*   out: sequence of [k |-> "pdu", pgn, da, d (fields)], [k |-> "proceed", ...] (callback),                       *)
(*        [k |-> "notify"], [k |-> "respret", data] (respond() returns)                                           *)
(***************************************************************************)
EXTENDS Codec, TLC

None == -1
NoSeed == 65535
USER_LEVEL == 7
\* the key algorithm (scenario parameter k): key(seed) = (seed * 3 + k) mod 65536
Key(seed, k) == (seed * 3 + k) % 65536

(******************************* client ************************************)
\* op: [cmd (CMD_READ / CMD_WRITE), direct, ptr (4 bytes LSB first), count, bytes (to write), alg (has a key algorithm), k]
ClIdle == [st |-> "idle"]
Pdu(pgn, da, f) == [k |-> "pdu", pgn |-> pgn, da |-> da, f |-> f]
ClStart(op, srv) ==
    [c |-> [st |-> "w_first", op |-> op, data |-> <<>>, err |-> None, edcp |-> None, srv |-> srv, det |-> FALSE],
     out |-> << Pdu(PGN_DM14, srv, [count |-> op.count, direct |-> op.direct, cmd |-> op.cmd, ptr |-> op.ptr, kf |-> USER_LEVEL]) >>]
\* a DM15 from `from` is delivered to the client
ClOnDm15(c, p, from) ==
    IF c.st \notin {"w_first", "w_complete"} \/ from # c.srv THEN [c |-> c, out |-> <<>>]
    ELSE IF p.status \in {ST_BUSY, ST_FAILED}
    THEN [c |-> [c EXCEPT !.st = "failed", !.err = p.err, !.edcp = p.edcp], out |-> <<>>]
    ELSE IF p.seed = NoSeed /\ p.count = c.op.count /\ c.st = "w_first"
    THEN \* proceed
         IF c.op.cmd = CMD_WRITE
         THEN [c |-> [c EXCEPT !.st = "w_complete"], out |-> << Pdu(PGN_DM16, c.srv, [data |-> c.op.bytes]) >>]
         ELSE [c |-> [c EXCEPT !.st = "w_dm16"], out |-> <<>>]
    ELSE IF c.st = "w_complete" /\ p.status = ST_COMPLETED
    THEN [c |-> [c EXCEPT !.st = "ok"],
          out |-> << Pdu(PGN_DM14, c.srv, [count |-> 1, direct |-> c.op.direct, cmd |-> CMD_COMPLETED, ptr |-> c.op.ptr, kf |-> 65535]) >>]
    ELSE IF c.st = "w_first"              \* anything else in the first phase is a seed (also 0xFFFF with a count of 0)
    THEN IF c.op.alg
         THEN [c |-> c, out |-> << Pdu(PGN_DM14, c.srv, [count |-> c.op.count, direct |-> c.op.direct, cmd |-> c.op.cmd, ptr |-> c.op.ptr,
                                                        kf |-> Key(p.seed, c.op.k)]) >>]
         ELSE [c |-> [c EXCEPT !.st = "nokey"], out |-> <<>>]
    ELSE [c |-> c, out |-> <<>>]
ClOnDm16(c, data, from) ==
    IF c.st = "w_dm16" /\ from = c.srv THEN [c EXCEPT !.st = "w_complete", !.data = data] ELSE c
\* what read() / write() may return in state c:  [raises, code (error code named in the exception, None = any text), data]
ClResult(c) ==
    CASE c.st = "ok" -> [raises |-> FALSE, code |-> None, data |-> IF c.op.cmd = CMD_READ THEN c.data ELSE <<>>]
      [] c.st = "failed" /\ c.edcp \in {6, 7} -> [raises |-> TRUE, code |-> c.err, data |-> <<>>]
      [] c.st = "failed" -> [raises |-> FALSE, code |-> None, data |-> <<>>]      \* no error indicator carried
      [] c.st = "nokey" -> [raises |-> TRUE, code |-> None, data |-> <<>>]
      [] c.st = "w_first" -> [raises |-> TRUE, code |-> None, data |-> <<>>]      \* time-out: no response from the server
      [] OTHER -> [raises |-> FALSE, code |-> None, data |-> <<>>]                 \* time-out later on: gives up silently

\* read() / write() has returned.  After a time-out the query object stays subscribed: it goes on reacting to late
\* answers (and so closes the transaction its caller has given up) until the next operation is started.
ClAfterReturn(c) == IF c.st \in {"w_first", "w_dm16", "w_complete"} THEN [c EXCEPT !.det = TRUE] ELSE ClIdle
ClFree(c) == c.st = "idle" \/ c.det

(******************************* server ************************************)
\* cfg: [sec (seed/key configured), k]
SvIdle == [st |-> "idle", sa |-> None, ptr |-> <<>>]
Failed(to, p, err, edcp) == Pdu(PGN_DM15, to, [count |-> 0, direct |-> p.direct, status |-> ST_FAILED, err |-> err, edcp |-> edcp, seed |-> NoSeed])
\* the question put to the application's proceed callback in state "ask", and its answer
ProceedCb(s) == [k |-> "proceed", cmd |-> s.cmd, ptr |-> s.ptr, ptype |-> s.direct, count |-> s.count, key |-> s.key, sa |-> s.sa, seed |-> s.aseed]
SvAnswer(s, ans) ==
    IF s.st # "ask" THEN [s |-> s, out |-> <<>>]
    ELSE IF ans THEN [s |-> [s EXCEPT !.st = "w_app"], out |-> << [k |-> "notify"] >>]
    ELSE [s |-> SvIdle, out |-> << Failed(s.sa, s, 256, 7) >>]
\* the seed generator hands out `seed` in state "gen"
SvSeed(s, seed) ==
    IF s.st # "gen" THEN [s |-> s, out |-> <<>>]
    ELSE [s |-> [s EXCEPT !.st = "w_key", !.seed = seed],
          out |-> << Pdu(PGN_DM15, s.sa, [count |-> 0, direct |-> s.direct, status |-> ST_PROCEED, err |-> 16777215, edcp |-> 255, seed |-> seed]) >>]
\* a DM14 from `from` is delivered to the serving side
SvOnDm14(s, cfg, p, from) ==
    IF (s.sa # None /\ from # s.sa) \/ (s.ptr # <<>> /\ p.ptr # s.ptr)
    THEN \* busy with somebody else / something else: "operation failed" to the sender, nothing changes
         [s |-> s, out |-> << Failed(from, p, None, 7) >>, busy |-> TRUE]
    ELSE
    CASE s.st = "idle" ->
           LET s1 == [st |-> IF cfg.sec THEN "gen" ELSE "ask", sa |-> from, ptr |-> p.ptr, cmd |-> p.cmd, direct |-> p.direct,
                      count |-> p.count, ulevel |-> p.kf, seed |-> None, key |-> 65535, aseed |-> 0]
           IN [s |-> s1, out |-> <<>>, busy |-> FALSE]
      [] s.st = "w_key" ->
           IF p.kf = Key(s.seed, cfg.k)
           THEN [s |-> [s EXCEPT !.st = "ask", !.key = p.kf, !.aseed = s.seed], out |-> <<>>, busy |-> FALSE]
           ELSE [s |-> SvIdle, out |-> << Failed(from, s, 4099, 7) >>, busy |-> FALSE]
      [] s.st = "w_close" /\ p.cmd = CMD_COMPLETED -> [s |-> SvIdle, out |-> <<>>, busy |-> FALSE]
      [] OTHER -> [s |-> s, out |-> <<>>, busy |-> FALSE]              \* out of sequence: not answered
\* the serving application calls respond(proceed, data, error, edcp) after it was notified
SvRespond(s, r) ==
    IF s.st # "w_app" THEN [s |-> s, out |-> << [k |-> "respret", data |-> r.data, none |-> FALSE] >>]
    ELSE IF ~r.proceed THEN [s |-> SvIdle, out |-> << Failed(s.sa, s, r.error, r.edcp), [k |-> "respret", data |-> <<>>, none |-> TRUE] >>]
    ELSE LET pro == Pdu(PGN_DM15, s.sa, [count |-> s.count, direct |-> s.direct, status |-> ST_PROCEED, err |-> 16777215, edcp |-> 255, seed |-> NoSeed])
             done == Pdu(PGN_DM15, s.sa, [count |-> 0, direct |-> s.direct, status |-> ST_COMPLETED, err |-> 16777215, edcp |-> 255, seed |-> NoSeed])
         IN IF s.cmd = CMD_READ
            THEN IF Len(r.data) <= 7
                 THEN [s |-> [s EXCEPT !.st = "w_close"], out |-> << pro, Pdu(PGN_DM16, s.sa, [data |-> r.data]), done, [k |-> "respret", data |-> <<>>, none |-> TRUE] >>]
                 ELSE [s |-> [s EXCEPT !.st = "w_eoma"], out |-> << pro, Pdu(PGN_DM16, s.sa, [data |-> r.data]), [k |-> "respret", data |-> <<>>, none |-> TRUE] >>]
            ELSE [s |-> [s EXCEPT !.st = "w_dm16"], out |-> << pro >>]
SvDone(s) == Pdu(PGN_DM15, s.sa, [count |-> 0, direct |-> s.direct, status |-> ST_COMPLETED, err |-> 16777215, edcp |-> 255, seed |-> NoSeed])
\* the data of a write arrives (respond() is blocked waiting for it and returns it)
SvOnDm16(s, data, from) ==
    IF s.st = "w_dm16" /\ from = s.sa
    THEN [s |-> [s EXCEPT !.st = "w_close"], out |-> << SvDone(s), [k |-> "respret", data |-> data, none |-> FALSE] >>]
    ELSE [s |-> s, out |-> <<>>]
\* the long DM16 of a read has been acknowledged by the client's transport layer
SvOnAck(s) ==
    IF s.st = "w_eoma" THEN [s |-> [s EXCEPT !.st = "w_close"], out |-> << SvDone(s) >>] ELSE [s |-> s, out |-> <<>>]
=============================================================================
