---------------------------- MODULE MC_Tp22_c10q----------------------------
(* C10 model (FD): histories mixing clean transfers, one lost frame at any emission, a peer abort     *)
(* injected at any point, refusals; pools scaled to 2+1.  PoolConsistent is checked in EVERY state.   *)
EXTENDS Tp22
Lst(a) == << [tag |-> "ecu", kind |-> "all", adr |-> -1] >>
MC_Nodes == {"A", "B"}
MC_NodeCfg == [n \in MC_Nodes |->
    CASE n = "A" -> [maxc |-> 1, bamInt |-> 10, cmdtInt |-> -1, paceMax |-> -1, cas |-> <<16>>, lst |-> Lst(16), lat |-> 1]
      [] n = "B" -> [maxc |-> 2, bamInt |-> 10, cmdtInt |-> -1, paceMax |-> -1, cas |-> <<32>>, lst |-> Lst(32), lat |-> 1]]
Pay(n, s) == [i \in 1..n |-> (s * 16 + i) % 256]
M(src, sa, pf, ps, n, s) == [src |-> src, sa |-> sa, dp |-> 0, pf |-> pf, ps |-> ps, prio |-> 6, data |-> Pay(n, s), tl |-> 0, ff |-> 3]
MC_Msgs == << M("A", 16, 208, 80, 121, 1), M("A", 16, 209, 32, 61, 3) >>
\* address 80 belongs to no stack: its "owner" is the environment, a peer that clears, aborts or stays silent
MC_Adv == { [to |-> "A", id |-> MkId(7, 0, 0, PF_FDCM, 16, 80), data |-> FdCm(FC_ABORT, 0, 16777215, 16777215, 255, 1, 53248)],
            [to |-> "A", id |-> MkId(7, 0, 0, PF_FDCM, 16, 80), data |-> FdCm(FC_CTS, 0, 16777215, 1, 1, 0, 53248)],
            [to |-> "A", id |-> MkId(7, 0, 0, PF_FDCM, 16, 80), data |-> FdCm(FC_ABORT, 1, 16777215, 16777215, 255, 1, 53248)] }
=============================================================================
