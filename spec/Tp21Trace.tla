----------------------------- MODULE Tp21Trace -----------------------------
(***************************************************************************)
(* Trace validation for the J1939-21 stack: a batch of executions recorded *)
(* from the real code (harness/vt.py) is replayed against Tp21Core.  For   *)
(* every input event (API call, received frame, job wake-up) the spec      *)
(* computes the state change and the outputs; every logged output (frame   *)
(* on the bus, subscriber callback, return value, sleep time) and every    *)
(* logged projection of the session tables must be exactly what the spec   *)
(* predicts.  On top, the property monitors (delivery: C01/C06/C10; bus:   *)
(* C03/C09) are evaluated at every step.                                   *)
(* One TLC run validates a whole batch: `tid` picks the trace, `l` is the  *)
(* cursor, verdicts are printed per trace (total: accepted / first failing *)
(* clause).                                                                *)
(***************************************************************************)
EXTENDS Tp21Core, Mon21, Json, IOUtils

Batch == JsonDeserialize(IOEnv.TRACE_FILE)

VARIABLES tid, l, ns, pc, pend, dm, bm, silent, tmr, d1, cfgv, bad
vars == <<tid, l, ns, pc, pend, dm, bm, silent, tmr, d1, cfgv, bad>>

Tr == Batch[tid]
Ev == Tr.ev
Cfg(n) == cfgv[n]          \* the configuration in force (a "cfg" event replaces it: listener removed, ...)
Nodes == DOMAIN Tr.cfg

Init ==
    /\ tid \in 1..Len(Batch)
    /\ l = 1
    /\ ns = [n \in DOMAIN Batch[tid].cfg |-> InitNode]
    /\ pc = [n \in DOMAIN Batch[tid].cfg |-> PcIdle]
    /\ pend = [n \in DOMAIN Batch[tid].cfg |-> <<>>]
    /\ dm = DmInit
    /\ bm = BmInit
    /\ silent = {}
    /\ tmr = [n \in DOMAIN Batch[tid].cfg |-> None]     \* deadline of the one-shot probe timer of each node
    /\ d1 = [src |-> <<>>, want |-> None, got |-> 0]     \* DM1 monitor (C16)
    /\ cfgv = Batch[tid].cfg
    /\ bad = {}

Has2(e, f) == f \in DOMAIN e

(* projection of the spec state in the shape the harness logs it *)
AbsSnd(m) == [i \in 1..Len(m) |-> [key |-> m[i].key, st |-> m[i].st, next |-> m[i].next,
                                    waitOn |-> m[i].waitOn, total |-> m[i].total, size |-> m[i].size,
                                    dl |-> m[i].dl, pgn |-> m[i].pgn]]
AbsRcv(m) == [i \in 1..Len(m) |-> [key |-> m[i].key, total |-> m[i].total, size |-> m[i].size,
                                    n |-> Len(m[i].data), nextp |-> m[i].nextp, maxrec |-> m[i].maxrec,
                                    dl |-> m[i].dl, pgn |-> m[i].pgn]]

S(ns2, pc2, pend2, dm2, bm2, bad2) ==
    [ns |-> ns2, pc |-> pc2, pend |-> pend2, dm |-> dm2, bm |-> bm2, bad |-> bad2]
Fail(why) == S(ns, pc, pend, dm, bm, {why})

\* finish the running pass of node n (no further output allowed); result of Granule-running
FinishPass(n, clk) == RunToEmit(ns[n], Cfg(n), pc[n], clk)

MatchTx(h, e) == h.k = "tx" /\ h.id = e.id /\ h.data = e.data /\ h.fd = e.fd /\ e.ext = TRUE
MatchCb(h, e) == h.k = "cb" /\ h.tag = e.tag /\ h.pgn = e.pgn /\ h.sa = e.sa /\ h.data = e.data /\ h.prio = e.prio

Apply(e) ==
    LET n == e.node IN
    CASE e.ev = "api" /\ e.op = "send_pgn" /\ pc[n].ph \in {"rcv", "snd", "burst", "bexit"} ->
           \* submitted from a timer callback: the pass over the sessions of this loop iteration is finished first
           LET r == FinishPass(n, e.t) IN
           IF r.dead \/ r.out # <<>> \/ r.pc.ph # "end" THEN Fail("pass not finished as predicted before the timer callbacks")
           ELSE [S([ns EXCEPT ![n] = r.ns], [pc EXCEPT ![n] = r.pc], pend, dm, bm, {}) EXCEPT !.bad = {"RETRY"}]
      [] e.ev = "api" /\ e.op = "send_pgn" ->
           LET a == [dp |-> e.dp, pf |-> e.pf, ps |-> e.ps, prio |-> e.prio, sa |-> e.sa, data |-> e.data]
               r == SendPgn(ns[n], Cfg(n), a, e.t)
           IN IF Has2(e, "exc") THEN Fail("api.send_pgn raised")
              ELSE IF e.ret # r.ret THEN Fail("api.send_pgn return value")
              ELSE S([ns EXCEPT ![n] = r.ns], pc, [pend EXCEPT ![n] = r.out \o @],
                     IF r.ret THEN DmAccept(dm, n, a) ELSE DmRefuse(dm), bm, {})
      [] e.ev = "api" /\ e.op = "add_timer" ->     \* one-shot probe timer: wakes the job thread
           S([ns EXCEPT ![n].tok = @ + 1], pc, pend, dm, bm, {})
      [] e.ev = "api" /\ e.op = "remove_timer" ->  \* e.g. Dm1.stop_send: wakes the job thread
           S([ns EXCEPT ![n].tok = @ + 1], pc, pend, dm, bm, {})
      [] e.ev = "timer" ->                          \* its callback: never early, at most the wake latency late
           IF tmr[n] = None THEN Fail("timer callback without a registration (or after it was removed)")
           ELSE IF e.t < tmr[n] THEN Fail("timer fired early")
           ELSE IF e.t > tmr[n] + WakeLat + Tr.expect.slack THEN Fail("timer fired late")
           ELSE S(ns, pc, pend, dm, bm, {})
      [] e.ev = "dm1src" -> S(ns, pc, pend, dm, bm, {})      \* checked by the DM1 monitor below
      [] e.ev = "dm1rx" -> S(ns, pc, pend, dm, bm, {})
      [] e.ev = "tx" ->
           IF pend[n] # <<>>
           THEN IF MatchTx(Head(pend[n]), e)
                THEN LET b2 == BmStep(bm, dm.acc, Tr.cfg, n, e) IN
                     S(ns, pc, [pend EXCEPT ![n] = Tail(@)], dm, b2.bm, IF Tr.expect.bus THEN b2.bad ELSE {})
                ELSE Fail("tx differs from the frame the specification predicts")
           ELSE IF pc[n].ph \in {"rcv", "snd", "burst", "bexit"}
           THEN LET r == RunToEmit(ns[n], Cfg(n), pc[n], e.t) IN
                IF r.dead THEN Fail("specification predicts job thread death")
                ELSE IF r.out = <<>> THEN Fail("tx not predicted by the job pass")
                ELSE IF MatchTx(r.out[1], e)
                THEN LET b2 == BmStep(bm, dm.acc, Tr.cfg, n, e) IN
                     S([ns EXCEPT ![n] = r.ns], [pc EXCEPT ![n] = r.pc], pend, dm, b2.bm, IF Tr.expect.bus THEN b2.bad ELSE {})
                ELSE Fail("job tx differs from the frame the specification predicts")
           ELSE Fail("tx without a cause")
      [] e.ev = "cb" ->
           IF pend[n] # <<>> /\ MatchCb(Head(pend[n]), e)
           THEN LET d2 == DmDeliver(dm, Tr.cfg, n, Head(pend[n])) IN
                S(ns, pc, [pend EXCEPT ![n] = Tail(@)], d2.dm, bm, IF Tr.expect.dm THEN d2.bad ELSE {})
           ELSE Fail("callback differs from the delivery the specification predicts")
      [] e.ev = "rx" /\ Has2(e, "flags") /\ (~e.flags.ext \/ e.flags.remote \/ e.flags.error) ->
           \* only extended-id data frames are processed at all (11-bit, remote and error frames are ignored)
           IF Has2(e, "exc") THEN Fail("rx exception behaviour") ELSE S(ns, pc, pend, dm, bm, {})
      [] e.ev = "rx" ->
           LET r == Notify(ns[n], Cfg(n), e.id, e.data, e.t) IN
           IF r.unmodeled THEN Fail("input outside this specification")
           \* (a frame fed in through the python-can listener: the listener logs and swallows exceptions of notify())
           ELSE IF Has2(e, "exc") # (r.exc /\ ~Has2(e, "flags")) THEN Fail("rx exception behaviour")
           ELSE S([ns EXCEPT ![n] = r.ns], pc, [pend EXCEPT ![n] = r.out \o @], dm, bm, {})
      [] e.ev = "ptx" ->      \* a frame put on the bus by the reference peer (not a stack under test)
           LET b2 == BmStep(bm, dm.acc, Tr.cfg, n, e) IN S(ns, pc, pend, dm, b2.bm, IF Tr.expect.bus THEN b2.bad ELSE {})
      [] e.ev = "papi" ->     \* the reference peer submits a message of its own (it is owed a delivery, too)
           S(ns, pc, pend, DmAccept(dm, n, [dp |-> e.dp, pf |-> e.pf, ps |-> e.ps, prio |-> e.prio, sa |-> e.sa, data |-> e.data]), bm, {})
      [] e.ev = "wake" ->
           IF pc[n].ph # "idle" THEN Fail("wake while running")
           ELSE IF e.why = "token"
           THEN IF ns[n].tok > 0
                THEN S([ns EXCEPT ![n].tok = @ - 1, ![n].su = None], [pc EXCEPT ![n] = [ph |-> "woken"]], pend, dm, bm, {})
                ELSE \* a wake-up the specification did not ask for: redundant, not wrong - the pass it starts is predicted
                     \* (and checked) like any other; only a MISSING wake-up can break a property
                     S([ns EXCEPT ![n].su = None], [pc EXCEPT ![n] = [ph |-> "woken"]], pend, dm, bm, {})
           ELSE IF ns[n].su = e.t
                THEN S([ns EXCEPT ![n].su = None], [pc EXCEPT ![n] = [ph |-> "woken"]], pend, dm, bm, {})
                ELSE Fail("wake-up time differs from the sleep the specification computed")
      [] e.ev = "job" ->
           IF pc[n].ph \in {"woken", "again"} \/ (pc[n].ph = "idle" /\ ns[n].su = None)
           THEN S(ns, [pc EXCEPT ![n] = PassBegin(ns[n], e.t)], pend, dm, bm, {})
           ELSE IF pc[n].ph = "idle" THEN Fail("pass without wake-up")
           ELSE \* previous pass ended without sleeping (time_to_sleep <= 0)
                LET r == FinishPass(n, e.t) IN
                IF r.dead \/ r.out # <<>> \/ r.pc.ph # "end" THEN Fail("previous pass not finished as predicted")
                ELSE LET pe == PassEnd(r.ns, r.pc, e.t) IN
                     IF pe.slept \/ pe.pc.ph # "again" \/ r.pc.nw - e.t > 0
                     THEN Fail("code starts a new pass where the specification sleeps")
                     ELSE S([ns EXCEPT ![n] = pe.ns], [pc EXCEPT ![n] = PassBegin(pe.ns, e.t)], pend, dm, bm,
                            IF pe.spin THEN {"busy spin: pass without effect and without sleep"} ELSE {})
      [] e.ev = "sleep" ->
           IF pc[n].ph \notin {"rcv", "snd", "burst", "bexit", "end"} THEN Fail("sleep outside a pass")
           ELSE LET r == FinishPass(n, e.t) IN
                IF r.dead \/ r.out # <<>> \/ r.pc.ph # "end" THEN Fail("pass not finished as predicted before sleep")
                ELSE LET pe == PassEnd(r.ns, r.pc, e.t) IN
                     IF e.tok = 1
                     THEN IF ~pe.slept /\ r.pc.nw - e.t > 0
                          THEN S([ns EXCEPT ![n] = pe.ns], [pc EXCEPT ![n] = pe.pc], pend, dm, bm, {})
                          ELSE IF pe.slept
                          THEN \* a redundant wake-up token: the code runs one more pass instead of sleeping
                               S([ns EXCEPT ![n] = [pe.ns EXCEPT !.su = None]], [pc EXCEPT ![n] = [ph |-> "again"]], pend, dm, bm, {})
                          ELSE Fail("token consumed where the specification has none")
                     \* sleeping SHORTER than necessary is harmless (an extra pass); sleeping longer serves something late
                     ELSE IF pe.slept /\ e.until <= (IF tmr[n] # None /\ tmr[n] + WakeLat < pe.until THEN tmr[n] + WakeLat ELSE pe.until) /\ e.until > e.t
                          THEN S([ns EXCEPT ![n] = [pe.ns EXCEPT !.su = e.until]], [pc EXCEPT ![n] = pe.pc], pend, dm, bm, {})
                          ELSE Fail("sleep time differs from the specification (lost or late wake-up)")
      [] e.ev = "abs" ->
           IF pc[n].ph # "idle" \/ pend[n] # <<>> THEN S(ns, pc, pend, dm, bm, {})   \* only compared at rest
           ELSE IF e.snd # AbsSnd(ns[n].snd) THEN Fail("send session table differs")
           ELSE IF e.rcv # AbsRcv(ns[n].rcv) THEN Fail("receive session table differs")
           ELSE IF e.tok < ns[n].tok THEN Fail("wake-up tokens differ")          \* a lost wake-up; more tokens are redundant wake-ups
           ELSE S([ns EXCEPT ![n].tok = e.tok], pc, pend, dm, bm, {})
      [] e.ev = "perr" -> IF Tr.expect.bus THEN Fail(e.msg) ELSE S(ns, pc, pend, dm, bm, {})
      [] e.ev = "hang" -> Fail("a call into the stack does not return / the stacks produce events without end")
      [] e.ev = "jobdead" -> Fail("job thread died")
      [] e.ev = "spin" -> Fail("job thread busy-spins")
      [] e.ev \in {"lost", "silence", "token", "note", "end", "cfg"} -> S(ns, pc, pend, dm, bm, {})
      [] OTHER -> Fail("unknown event")

(* C16 monitor: what the DM1 sender's callback supplied (dm1src) must be encoded per SAE J1939-73 (Codec) in the *)
(* payload handed to send_pgn, and is what every DM1 subscriber receives (dm1rx), in order.                      *)
LampName(k) == CASE k = 0 -> "off" [] k = 1 -> "on" [] k = 2 -> "slow" [] k = 3 -> "fast" [] OTHER -> "na"
RECURSIVE DtcCat(_)
DtcCat(s) == IF s = <<>> THEN <<>> ELSE DtcBytes(Head(s).spn, Head(s).fmi, Head(s).oc) \o DtcCat(Tail(s))
Dm1Bytes(x) == LampBytes(LampName(x.lamps.pl), LampName(x.lamps.awl), LampName(x.lamps.rsl), LampName(x.lamps.mil)) \o DtcCat(x.dtcs)
Dm1Next(d, e) ==
    IF e.ev = "dm1src" THEN [d EXCEPT !.src = Append(@, [lamps |-> e.lamps, dtcs |-> e.dtcs]), !.want = Len(d.src) + 1]
    ELSE IF e.ev = "api" /\ e.op = "send_pgn" /\ d.want # None /\ e.pf = 254 /\ e.ps = 202
    THEN IF "ret" \in DOMAIN e /\ e.ret = FALSE
         \* refused by the transport layer (the previous DM1 is still on the bus): this cycle's DM1 is skipped
         THEN [d EXCEPT !.want = None, !.src = SubSeq(@, 1, d.want - 1) \o SubSeq(@, d.want + 1, Len(@))]
         ELSE [d EXCEPT !.want = None]
    ELSE IF e.ev = "dm1rx" THEN [d EXCEPT !.got = @ + 1]
    ELSE d
Dm1Bad(d, e) ==
    IF e.ev = "api" /\ e.op = "send_pgn" /\ e.pf = 254 /\ e.ps = 202 /\ d.want # None
    THEN (IF e.data # Dm1Bytes(d.src[d.want]) THEN {"DM1 payload is not the SAE J1939-73 encoding of the lamp states and trouble codes the callback supplied"} ELSE {})
    ELSE IF e.ev = "dm1rx"
    THEN (IF d.got + 1 > Len(d.src) THEN {"DM1 delivered that nobody sent"}
          ELSE IF e.lamps # d.src[d.got + 1].lamps \/ e.dtcs # d.src[d.got + 1].dtcs
          THEN {"DM1 subscriber received other lamp states / trouble codes than the sender's callback supplied"} ELSE {})
    ELSE IF e.ev = "end" /\ "dm1all" \in DOMAIN Tr.expect /\ Tr.expect.dm1all /\ d.got # Len(d.src)
    THEN {"a DM1 that was sent never reached the subscriber"}
    ELSE {}

\* C06/C07: at the time of every event, no live stack still holds a session whose last activity is
\* older than the standard's longest time-out (plus the wake-up latency of the job thread)
SessionsOf(x) == {x.snd[i] : i \in 1..Len(x.snd)} \cup {x.rcv[i] : i \in 1..Len(x.rcv)}
Overdue(t) == \E n \in Nodes \ silent : \E b \in SessionsOf(ns[n]) : t - b.act > T2 + WakeLat + Tr.expect.slack

\* monitor mode (C08: runs with the job thread pre-empted at an arbitrary source line): the outputs are not predicted
\* from the model - where the thread was suspended is not observable at the granularity of the model - but every
\* property monitor runs on what was observed: delivery (intact, once, to the addressed listeners), bus (clearance,
\* order, decoding), job thread alive, no spin, session tables empty at the end (from the logged projections).
\* clauses about WHEN a frame is sent: not part of the outcome a pre-empted run is judged by (C08)
TimingClauses == {"BAM data packets closer than the minimum interval", "BAM data packets further apart than allowed",
                  "connection-mode data packets closer than the configured minimum interval (first packet after a CTS)",
                  "connection-mode data packets closer than the configured minimum interval (within a window)"}
ApplyFree(e) ==
    LET n == e.node IN
    CASE e.ev = "api" /\ e.op = "send_pgn" ->
           LET a == [dp |-> e.dp, pf |-> e.pf, ps |-> e.ps, prio |-> e.prio, sa |-> e.sa, data |-> e.data, t |-> e.t, tl |-> e.tl, ff |-> e.ff]
           IN S(ns, pc, pend, IF e.ret THEN DmAccept(dm, n, a) ELSE DmRefuse(dm), bm, {})
      [] e.ev = "tx" ->
           LET b2 == BmStep(bm, dm.acc, Tr.cfg, n, e)
               \* a hold of a few ms is far below every time-out: in a fault-free run nobody has a reason to abort
               ab == IF Tr.expect.all /\ IdPf(e.id) = 236 /\ Len(e.data) >= 1 /\ e.data[1] = CB_ABORT THEN {"connection abort on the bus in a fault-free run"} ELSE {}
           IN S(ns, pc, pend, dm, b2.bm, (IF Tr.expect.bus THEN b2.bad \ TimingClauses ELSE {}) \cup ab)
      [] e.ev = "cb" ->
           LET h == [kind |-> IF Len(e.data) = 8 /\ e.data[1] = 19 THEN "eoma" ELSE "msg", tag |-> e.tag, pgn |-> e.pgn, sa |-> e.sa, data |-> e.data]
               d2 == DmDeliver(dm, Tr.cfg, n, h)
           IN S(ns, pc, pend, d2.dm, bm, d2.bad)
      [] e.ev = "abs" -> S([ns EXCEPT ![n].snd = e.snd, ![n].rcv = e.rcv], pc, pend, dm, bm, {})
      [] e.ev = "hang" -> Fail("a call into the stack does not return / the stacks produce events without end")
      [] e.ev = "jobdead" -> Fail("job thread died")
      [] e.ev = "spin" -> Fail("job thread busy-spins")
      [] OTHER -> S(ns, pc, pend, dm, bm, {})

Done == l > Len(Ev)
\* end-of-trace obligations
Final ==
    IF \E n \in Nodes : pend[n] # <<>> THEN {"predicted output never happened"}
    ELSE DmFinal(dm, Tr) \cup BmFinal(bm, Tr) \cup
         (IF Tr.expect.idle /\ \E n \in Nodes \ silent : ns[n].snd # <<>> \/ ns[n].rcv # <<>>
          THEN {"sessions left open at the end"} ELSE {})

Step ==
    /\ bad = {} /\ ~Done
    /\ LET r0 == IF "free" \in DOMAIN Tr.expect /\ Tr.expect.free THEN ApplyFree(Ev[l]) ELSE Apply(Ev[l])
           retry == r0.bad = {"RETRY"}          \* the state was prepared; the same event is applied again
           r == IF retry THEN [r0 EXCEPT !.bad = {}]
                ELSE IF r0.bad = {} /\ ~("free" \in DOMAIN Tr.expect /\ Tr.expect.free) /\ Overdue(Ev[l].t)
                THEN [r0 EXCEPT !.bad = {"session not given up within the standard's time-out"}]
                ELSE IF r0.bad = {} /\ Dm1Bad(d1, Ev[l]) # {} THEN [r0 EXCEPT !.bad = Dm1Bad(d1, Ev[l])] ELSE r0 IN
       /\ ns' = r.ns /\ pc' = r.pc /\ pend' = r.pend /\ dm' = r.dm /\ bm' = r.bm
       /\ bad' = IF retry THEN {}
                 ELSE IF r.bad = {} /\ l = Len(Ev) THEN
                    (IF \E n \in Nodes \ silent : r.pend[n] # <<>> THEN {"predicted output never happened"}
                     ELSE DmFinal(r.dm, Tr) \cup BmFinal(r.bm, Tr) \cup
                          (IF Tr.expect.idle /\ \E n \in Nodes \ silent : r.ns[n].snd # <<>> \/ r.ns[n].rcv # <<>>
                           THEN {"sessions left open at the end"} ELSE {}))
                 ELSE r.bad
       /\ l' = IF retry THEN l ELSE IF r.bad = {} THEN l + 1 ELSE l
    /\ silent' = IF Ev[l].ev = "silence" THEN silent \cup {Ev[l].node} ELSE silent
    /\ tmr' = IF Ev[l].ev = "api" /\ Ev[l].op = "add_timer" THEN [tmr EXCEPT ![Ev[l].node] = Ev[l].t + Ev[l].delta]
              ELSE IF Ev[l].ev = "api" /\ Ev[l].op = "remove_timer" THEN [tmr EXCEPT ![Ev[l].node] = None]
              ELSE IF Ev[l].ev = "timer"
              THEN [tmr EXCEPT ![Ev[l].node] = IF "period" \in DOMAIN Ev[l] /\ Ev[l].period > 0 THEN @ + Ev[l].period ELSE None]   \* periodic: stays on its grid
              ELSE tmr
    /\ d1' = Dm1Next(d1, Ev[l])
    /\ cfgv' = IF Ev[l].ev = "cfg" THEN [cfgv EXCEPT ![Ev[l].node] = Ev[l].cfg] ELSE cfgv
    /\ UNCHANGED tid

Spec == Init /\ [][Step]_vars

\* verdict printing (side effect of an always-true invariant; one line per terminal state)
Verdict ==
    IF bad # {} THEN PrintT(<<"VERDICT", tid, l, bad>>)
    ELSE IF Done THEN PrintT(<<"VERDICT", tid, l, {}>>)
    ELSE TRUE
=============================================================================
