SPECIFICATION Spec
CONSTANTS
  T1 = 750000
  T2 = 1250000
  T3 = 1250000
  Th = 500000
  T5 = 3000000
  IdleSleep = 5000000
  WakeLat = 1
  NCm = 8
  NBam = 4
INVARIANT Verdict
CHECK_DEADLOCK FALSE
