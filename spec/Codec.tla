------------------------------- MODULE Codec -------------------------------
(***************************************************************************)
(* SAE J1939 frame layouts as data and operators.  Written from the        *)
(* standard's field tables (J1939-21 5.1/5.10, J1939-22 6/7/8, J1939-81    *)
(* table 1, J1939-73 5.7), NOT from the code under test: this module is    *)
(* the "independent implementation" that every Tx frame of every trace is  *)
(* decoded / re-encoded with (property C03) and the oracle for the codec   *)
(* properties C15/C16.                                                     *)
(* Integers stay below 2^31 (TLC); 64-bit NAMEs are 8-byte sequences.      *)
(***************************************************************************)
EXTENDS Naturals, Integers, Sequences, FiniteSets

Min2(a, b) == IF a < b THEN a ELSE b
Max2(a, b) == IF a > b THEN a ELSE b
Bits(v, lo, w) == (v \div (2 ^ lo)) % (2 ^ w)

(************************* 29-bit identifier *******************************)
\* field table: name, lowest bit, width        (J1939-21 figure 1)
IdLayout == << [f |-> "prio", lo |-> 26, w |-> 3],
               [f |-> "edp",  lo |-> 25, w |-> 1],
               [f |-> "dp",   lo |-> 24, w |-> 1],
               [f |-> "pf",   lo |-> 16, w |-> 8],
               [f |-> "ps",   lo |-> 8,  w |-> 8],
               [f |-> "sa",   lo |-> 0,  w |-> 8] >>
IdPrio(id) == Bits(id, 26, 3)
IdEdp(id)  == Bits(id, 25, 1)
IdDp(id)   == Bits(id, 24, 1)
IdPf(id)   == Bits(id, 16, 8)
IdPs(id)   == Bits(id, 8, 8)
IdSa(id)   == Bits(id, 0, 8)
MkId(p, edp, dp, pf, ps, sa) ==
    p * (2^26) + edp * (2^25) + dp * (2^24) + pf * (2^16) + ps * (2^8) + sa
IsPdu1(pf) == pf < 240
IsPdu2(pf) == pf >= 240
\* the PGN of a frame: PS counts only for PDU2 (J1939-21 5.1.2)
PgnOf(dp, pf, ps) == dp * 65536 + pf * 256 + (IF IsPdu2(pf) THEN ps ELSE 0)
Pgn3(pgn) == << pgn % 256, (pgn \div 256) % 256, (pgn \div 65536) % 256 >>
Le2(v) == << v % 256, (v \div 256) % 256 >>
Le3(v) == << v % 256, (v \div 256) % 256, (v \div 65536) % 256 >>
Rd2(d, i) == d[i] + 256 * d[i+1]
Rd3(d, i) == d[i] + 256 * d[i+1] + 65536 * d[i+2]

GLOBAL == 255
NULLADDR == 254

(********************* J1939-21 transport protocol *************************)
PF_TPCM == 236      \* EC00
PF_TPDT == 235      \* EB00
PF_REQ  == 234      \* EA00
PF_ACLAIM == 238    \* EE00
CB_RTS == 16   CB_CTS == 17   CB_EOMA == 19   CB_BAM == 32   CB_ABORT == 255

NumPackets21(size) == (size + 6) \div 7
CmRts(size, total, limit, pgn) == <<CB_RTS>> \o Le2(size) \o <<total, limit>> \o Pgn3(pgn)
CmCts(n, next, pgn)            == <<CB_CTS, n, next, 255, 255>> \o Pgn3(pgn)
CmEoma(size, total, pgn)       == <<CB_EOMA>> \o Le2(size) \o <<total, 255>> \o Pgn3(pgn)
CmBam(size, total, pgn)        == <<CB_BAM>> \o Le2(size) \o <<total, 255>> \o Pgn3(pgn)
CmAbort(reason, pgn)           == <<CB_ABORT, reason, 255, 255, 255>> \o Pgn3(pgn)
\* k-th (1-based) TP.DT of a payload: sequence number, 7 bytes, 0xFF padding
Dt21(payload, k) ==
    <<k % 256>> \o [j \in 1..7 |-> IF 7 * (k - 1) + j <= Len(payload)
                             THEN payload[7 * (k - 1) + j] ELSE 255]
Tx21(prio, pf, da, sa, data) == [k |-> "tx", id |-> MkId(prio, 0, 0, pf, da, sa), data |-> data, fd |-> FALSE]

(********************* J1939-22 (FD) transport protocol ********************)
PF_FDCM == 77       \* 4D00
PF_FDDT == 78       \* 4E00
PF_MPG  == 37       \* 2500  FEFF multi-PG
FC_RTS == 0  FC_CTS == 1  FC_EOMS == 2  FC_EOMA == 3  FC_BAM == 4  FC_ABORT == 15
NumSegments22(size) == (size + 59) \div 60
\* FD.TP.CM: byte1 = session<<4 | control, 2-4 size, 5-7 segments, 8, 9, 10-12 PGN
FdCm(ctl, sess, size, segs, b7, b8, pgn) ==
    << (sess % 16) * 16 + ctl >> \o Le3(size) \o Le3(segs) \o << b7 % 256, b8 % 256 >> \o Pgn3(pgn)
\* legal CAN-FD payload lengths
FdLengths == {0, 1, 2, 3, 4, 5, 6, 7, 8, 12, 16, 20, 24, 32, 48, 64}
FdLen(n) == CHOOSE m \in FdLengths : m >= n /\ \A x \in FdLengths : x >= n => m <= x
PadTo(d, n, v) == d \o [j \in 1..(n - Len(d)) |-> v]
\* k-th (1-based) FD.TP.DT segment
Dt22(payload, sess, k) ==
    LET lo == 60 * (k - 1)
        n  == Min2(60, Len(payload) - lo)
        raw == << (sess % 16) * 16 >> \o Le3(k) \o [j \in 1..n |-> payload[lo + j]]
    IN PadTo(raw, FdLen(Len(raw)), 255)
TxFd(prio, pf, da, sa, data) == [k |-> "tx", id |-> MkId(prio, 0, 0, pf, da, sa), data |-> data, fd |-> TRUE]

(************************** J1939-81 NAME **********************************)
NameLayout == << [f |-> "identity_number",           lo |-> 0,  w |-> 21],
                 [f |-> "manufacturer_code",         lo |-> 21, w |-> 11],
                 [f |-> "ecu_instance",              lo |-> 32, w |-> 3],
                 [f |-> "function_instance",         lo |-> 35, w |-> 5],
                 [f |-> "function",                  lo |-> 40, w |-> 8],
                 [f |-> "reserved_bit",              lo |-> 48, w |-> 1],
                 [f |-> "vehicle_system",            lo |-> 49, w |-> 7],
                 [f |-> "vehicle_system_instance",   lo |-> 56, w |-> 4],
                 [f |-> "industry_group",            lo |-> 60, w |-> 3],
                 [f |-> "arbitrary_address_capable", lo |-> 63, w |-> 1] >>
\* NAMEs are 8 bytes, least significant first (as on the wire).
\* a < b as 64-bit numbers: compare from the most significant byte
RECURSIVE NameLessFrom(_, _, _)
NameLessFrom(a, b, i) ==
    IF i = 0 THEN FALSE
    ELSE IF a[i] # b[i] THEN a[i] < b[i] ELSE NameLessFrom(a, b, i - 1)
NameLess(a, b) == NameLessFrom(a, b, 8)
\* bit i (0..63) of an 8-byte little-endian NAME
NameBit(nm, i) == Bits(nm[(i \div 8) + 1], i % 8, 1)
RECURSIVE FieldFromBits(_, _, _)
FieldFromBits(nm, lo, w) ==
    IF w = 0 THEN 0 ELSE NameBit(nm, lo) + 2 * FieldFromBits(nm, lo + 1, w - 1)
NameField(nm, fld) ==
    LET L == CHOOSE i \in 1..Len(NameLayout) : NameLayout[i].f = fld
    IN FieldFromBits(nm, NameLayout[L].lo, NameLayout[L].w)

(************************** J1939-73 DTC ***********************************)
\* 4 bytes: SPN bits 0..7 | SPN bits 8..15 | SPN bits 16..18 (top 3 bits) + FMI (low 5) | CM (bit 7) + OC (7 bits)
DtcBytes(spn, fmi, oc) ==
    << spn % 256, (spn \div 256) % 256, ((spn \div 65536) % 8) * 32 + (fmi % 32), oc % 128 >>
DtcSpn(b) == b[1] + 256 * b[2] + 65536 * (b[3] \div 32)
DtcFmi(b) == b[3] % 32
DtcOc(b)  == b[4] % 128
DtcCm(b)  == b[4] \div 128
\* lamp status: byte 1 = lamp on/off pairs, byte 2 = flash pairs; order (low bits first): PL, AWL, RSL, MIL
\* state -> <<lamp bits, flash bits>>: off, on (no flash), slow flash, fast flash, n/a
LampBits(st) == CASE st = "off"  -> <<0, 3>>
                  [] st = "on"   -> <<1, 3>>
                  [] st = "slow" -> <<1, 0>>
                  [] st = "fast" -> <<1, 1>>
                  [] st = "na"   -> <<3, 3>>
LampBytes(pl, awl, rsl, mil) ==
    << LampBits(pl)[1] + 4 * LampBits(awl)[1] + 16 * LampBits(rsl)[1] + 64 * LampBits(mil)[1],
       LampBits(pl)[2] + 4 * LampBits(awl)[2] + 16 * LampBits(rsl)[2] + 64 * LampBits(mil)[2] >>
\* DM22 individual clear: byte1 control, 2-5 0xFF, 6 SPN low, 7 SPN mid, 8 = SPN high 3 bits <<5 | FMI
Dm22Bytes(ctl, spn, fmi) ==
    << ctl, 255, 255, 255, 255, spn % 256, (spn \div 256) % 256, ((spn \div 65536) % 8) * 32 + (fmi % 32) >>


(************************** J1939-73 memory access (DM14 / DM15 / DM16) ****)
\* DM14: byte 1 number of objects (low 8 bits); byte 2: bit 5 pointer type (direct), bits 2-4 command, bit 1 reserved = 1;
\*       bytes 3-6 pointer + pointer extension (LSB first); bytes 7-8 key / user level (LSB first)
CMD_ERASE == 0  CMD_READ == 1  CMD_WRITE == 2  CMD_STATUS == 3  CMD_COMPLETED == 4  CMD_FAILED == 5
ST_PROCEED == 0  ST_BUSY == 1  ST_COMPLETED == 4  ST_FAILED == 5
Dm14Dec(d) == [count |-> d[1], direct |-> (d[2] \div 16) % 2, cmd |-> (d[2] \div 2) % 8, ptr |-> SubSeq(d, 3, 6), kf |-> d[7] + 256 * d[8]]
\* DM15: byte 1 number allowed; byte 2: bit 5 pointer type echo, bits 2-4 status, bit 1 = 1; bytes 3-5 error indicator / EDC
\*       parameter (LSB first); byte 6 EDCP extension; bytes 7-8 seed (LSB first)
Dm15Dec(d) == [count |-> d[1], direct |-> (d[2] \div 16) % 2, status |-> (d[2] \div 2) % 8, err |-> Rd3(d, 3), edcp |-> d[6], seed |-> d[7] + 256 * d[8]]
\* DM16: byte 1 number of occurrences of raw binary data (255 if more than 7 follow), then the data (padded with 0xFF to 8 bytes)
Dm16Data(d) == LET n == Min2(d[1], Len(d) - 1) IN SubSeq(d, 2, n + 1)
Dm16Bytes(data) == <<IF Len(data) > 7 THEN 255 ELSE Len(data)>> \o data \o [j \in 1..(7 - Len(data)) |-> 255]
PGN_DM14 == 55552   PGN_DM15 == 55296   PGN_DM16 == 55040

(************************** request (PGN 59904) ****************************)
ReqBytes(pgn) == Pgn3(pgn)

(************************** FD multi-PG (J1939-22 C-PG) ********************)
\* contained PG header: TOS(3) TF(3) CPGN(18) length(8)
CpgHeader(tos, tf, cpgn, len) ==
    << tos * 32 + tf * 4 + ((cpgn \div 65536) % 4), (cpgn \div 256) % 256, cpgn % 256, len >>
\* reference decoder of a multi-PG frame: sequence of [cpgn, data]; stops at padding (TOS 0) or when < 4 bytes remain
RECURSIVE MpgDecode(_)
MpgDecode(d) ==
    IF Len(d) <= 4 THEN <<>>
    ELSE LET tos == d[1] \div 32
             tf == (d[1] \div 4) % 8
             cpgn == (d[1] % 4) * 65536 + d[2] * 256 + d[3]
             n == d[4]
         IN IF tos = 0 THEN <<>>
            ELSE IF 4 + n > Len(d) THEN << [cpgn |-> cpgn, tos |-> tos, tf |-> tf, data |-> SubSeq(d, 5, Len(d)), short |-> TRUE] >>
            ELSE << [cpgn |-> cpgn, tos |-> tos, tf |-> tf, data |-> SubSeq(d, 5, 4 + n), short |-> FALSE] >>
                 \o MpgDecode(SubSeq(d, 5 + n, Len(d)))
=============================================================================
