----------------------------- MODULE Tp21Core ------------------------------
(***************************************************************************)
(* Functional core of the J1939-21 data link layer of python-can-j1939     *)
(* (j1939/j1939_21.py + the job loop of electronic_control_unit.py).       *)
(* Every handler of the code is one operator                               *)
(*        (node state, configuration, input, clock) -> [ns, out, ...]      *)
(* The state update comes first, the emitted frames / callbacks are the    *)
(* `out` sequence (the discipline j1939_21.py documents: "modify the       *)
(* snd_buffer state in anticipation of the message we are about to         *)
(* transmit").  The job pass is split into granules at every access to a   *)
(* shared dictionary and every emitted frame, so that reception can be     *)
(* interleaved (latency 0: re-entrant reply; pre-emption: C08).            *)
(* Used by Tp21.tla (model, TLC explores every interleaving / loss /       *)
(* hostile frame) and Tp21Trace.tla (validation of recorded executions).   *)
(***************************************************************************)
EXTENDS Addr, TLC

CONSTANTS T1, T2, T3, Th, IdleSleep, WakeLat   \* time-outs in clock units

\* send buffer states (SendBufferState)
WAITING_CTS == 0   SENDING_IN_CTS == 1   SENDING_BM == 2   FINISHED == 3
\* abort reasons
R_BUSY == 1  R_RESOURCES == 2  R_TIMEOUT == 3
None == -1

(************************ ordered maps (Python dict) ***********************)
Hash(sa, da) == (sa % 256) * 256 + (da % 256)
Has(m, k) == \E i \in 1..Len(m) : m[i].key = k
Idx(m, k) == CHOOSE i \in 1..Len(m) : m[i].key = k
Get(m, k) == m[Idx(m, k)]
Put(m, r) == IF Has(m, r.key) THEN [m EXCEPT ![Idx(m, r.key)] = r] ELSE Append(m, r)
Del(m, k) == SelectSeq(m, LAMBDA r : r.key # k)
Keys(m) == [i \in 1..Len(m) |-> m[i].key]

(****************************** node state *********************************)
\* cfg: [maxc, bamInt, cmdtInt (None or interval), cas (sequence of held addresses),
\*       lst (sequence of listeners [tag, kind \in {"all","int","ca"}, adr])]
InitNode == [snd |-> <<>>, rcv |-> <<>>, tok |-> 0, su |-> None]

Tx(prio, pf, da, sa, data) == Tx21(prio, pf, da, sa, data)
TxAbort(from, to, reason, pgn) == Tx(7, PF_TPCM, to, from, CmAbort(reason, pgn))
TxCts(from, to, n, next, pgn)  == Tx(7, PF_TPCM, to, from, CmCts(n, next, pgn))
TxEoma(from, to, size, total, pgn) == Tx(7, PF_TPCM, to, from, CmEoma(size, total, pgn))
TxDt(from, to, data) == Tx(7, PF_TPDT, to, from, data)

\* _notify_subscribers: one callback per matching listener, in subscription order.
\* kind ("msg" / "eoma") is a ghost tag for the delivery monitor.
Deliver(cfg, kind, prio, pgn, sa, dest, data) ==
    LET sel == SelectSeq(cfg.lst, LAMBDA l : ListenerTakes(l, dest))
    IN [i \in 1..Len(sel) |-> [k |-> "cb", kind |-> kind, tag |-> sel[i].tag, prio |-> prio, pgn |-> pgn,
                                sa |-> sa, data |-> data]]

R(ns, out) == [ns |-> ns, out |-> out, exc |-> FALSE]
Exc(ns)    == [ns |-> ns, out |-> <<>>, exc |-> TRUE]
Wake(ns)   == [ns EXCEPT !.tok = @ + 1]

(******************************* send_pgn **********************************)
\* a = [dp, pf, ps, prio, sa, data]
SendPgn(ns, cfg, a, clk) ==
    LET len == Len(a.data)
        pgnFull == a.dp * 65536 + a.pf * 256 + a.ps
    IN
    IF len <= 8
    THEN [ns |-> ns, ret |-> TRUE,
          out |-> << [k |-> "tx", id |-> MkId(a.prio, 0, a.dp, a.pf, a.ps, a.sa), data |-> a.data, fd |-> FALSE] >>]
    ELSE
    LET da  == IF a.ps = GLOBAL \/ IsPdu2(a.pf) THEN GLOBAL ELSE a.ps
        key == Hash(a.sa, da)
        np  == NumPackets21(len)
    IN
    IF Has(ns.snd, key) THEN [ns |-> ns, ret |-> FALSE, out |-> <<>>]
    ELSE IF da = GLOBAL
    THEN LET pgnA == PgnOf(a.dp, a.pf, a.ps)      \* PS belongs to the PGN only for PDU2
             b == [key |-> key, pgn |-> pgnA, prio |-> a.prio, size |-> len, total |-> np,
                   data |-> a.data, st |-> SENDING_BM, dl |-> clk + cfg.bamInt,
                   sa |-> a.sa, da |-> GLOBAL, next |-> 0, waitOn |-> None, act |-> clk]
         IN [ns |-> Wake([ns EXCEPT !.snd = Put(@, b)]), ret |-> TRUE,
             out |-> << Tx(a.prio, PF_TPCM, GLOBAL, a.sa, CmBam(len, np, pgnA)) >>]
    ELSE LET pgn0 == a.dp * 65536 + a.pf * 256
             b == [key |-> key, pgn |-> pgn0, prio |-> a.prio, size |-> len, total |-> np,
                   data |-> a.data, st |-> WAITING_CTS, dl |-> clk + T3,
                   sa |-> a.sa, da |-> a.ps, next |-> 0, waitOn |-> 0, act |-> clk]
         IN [ns |-> Wake([ns EXCEPT !.snd = Put(@, b)]), ret |-> TRUE,
             out |-> << Tx(a.prio, PF_TPCM, a.ps, a.sa, CmRts(len, np, Min2(cfg.maxc, np), pgn0)) >>]

(******************************* reception *********************************)
OnCm(ns, cfg, prio, sa, da, d, clk) ==
    IF Len(d) < 8 THEN Exc(ns)          \* data[5..7] / data[0]: IndexError raised to the feeder
    ELSE
    LET cb == d[1]
        pgn == Rd3(d, 6)
    IN
    CASE cb = CB_RTS ->
           LET size == Rd2(d, 2)  total == d[4]  lim == Min2(d[5], d[4])
               key == Hash(sa, da)
           IN IF Has(ns.rcv, key) THEN R(ns, << TxAbort(da, sa, R_BUSY, pgn) >>)
              ELSE LET mr == Min2(cfg.maxc, lim)
                       b == [key |-> key, pgn |-> pgn, size |-> size, total |-> total,
                             nextp |-> mr, maxrec |-> mr, data |-> <<>>, dl |-> clk + T2,
                             sa |-> sa, da |-> da, act |-> clk]
                   IN R(Wake([ns EXCEPT !.rcv = Put(@, b)]), << TxCts(da, sa, mr, 1, pgn) >>)
      [] cb = CB_CTS ->
           LET n == d[2]   nextpk == d[3] - 1
               key == Hash(da, sa)
           IN IF ~Has(ns.snd, key) THEN R(ns, << TxAbort(da, sa, R_RESOURCES, pgn) >>)
              ELSE LET b == Get(ns.snd, key) IN
                   IF n = 0 THEN R(Wake([ns EXCEPT !.snd = Put(@, [b EXCEPT !.dl = clk + Th, !.act = clk])]), <<>>)
                   ELSE IF b.next >= b.total THEN R(ns, <<>>)     \* everything sent (waiting for EOM_ACK): nothing to clear
                   ELSE LET n1 == Min2(n, b.total)
                            n2 == IF nextpk + n1 > b.total THEN b.total - nextpk ELSE n1
                            n3 == Min2(n2, b.total - b.next)        \* never more than still has to be sent
                            b2 == [b EXCEPT !.waitOn = b.next + n3 - 1, !.st = SENDING_IN_CTS, !.dl = clk, !.act = clk]
                        IN IF n3 <= 0 THEN R(ns, <<>>)               \* nothing sensible cleared: keep waiting
                           ELSE R(Wake([ns EXCEPT !.snd = Put(@, b2)]), <<>>)
      [] cb = CB_EOMA ->
           LET key == Hash(da, sa)
           IN IF ~Has(ns.snd, key) THEN R(ns, << TxAbort(da, sa, R_RESOURCES, pgn) >>)
              ELSE LET b == Get(ns.snd, key)
                       b2 == [b EXCEPT !.st = FINISHED, !.dl = clk, !.act = clk]
                   IN R(Wake([ns EXCEPT !.snd = Put(@, b2)]), Deliver(cfg, "eoma", prio, pgn, sa, da, d))
      [] cb = CB_BAM ->
           LET size == Rd2(d, 2)  total == d[4]
               key == Hash(sa, da)
               had == Has(ns.rcv, key)
               b == [key |-> key, pgn |-> pgn, size |-> size, total |-> total,
                     nextp |-> 1, maxrec |-> None, data |-> <<>>, dl |-> clk + T1,
                     sa |-> sa, da |-> da, act |-> clk]
               ns1 == [ns EXCEPT !.rcv = Append(Del(@, key), b), !.tok = @ + (IF had THEN 2 ELSE 1)]
           IN R(ns1, <<>>)
      [] cb = CB_ABORT ->
           LET key == Hash(da, sa)
           IN IF Has(ns.snd, key) /\ Get(ns.snd, key).st = WAITING_CTS
              THEN R([ns EXCEPT !.snd = Put(@, [Get(ns.snd, key) EXCEPT !.st = FINISHED, !.dl = clk, !.act = clk])], <<>>)
              ELSE R(ns, <<>>)
      [] OTHER -> Exc(ns)                \* unknown control byte: RuntimeError to the feeder

OnDt(ns, cfg, prio, sa, da, d, clk) ==
    IF Len(d) < 1 THEN Exc(ns)
    ELSE
    LET seqn == d[1]
        key == Hash(sa, da)
    IN IF ~Has(ns.rcv, key) THEN R(ns, <<>>)
       ELSE
       LET b == Get(ns.rcv, key)
           got == b.data \o Tail(d)
       IN IF Len(got) >= b.size
          THEN \* complete: acknowledge (connection mode), deliver, release
               LET pay == SubSeq(got, 1, b.size)
                   ack == IF da # GLOBAL THEN << TxEoma(da, sa, b.size, b.total, b.pgn) >> ELSE <<>>
               IN R(Wake([ns EXCEPT !.rcv = Del(@, key)]), ack \o Deliver(cfg, "msg", prio, b.pgn, sa, da, pay))
          ELSE IF da # GLOBAL /\ seqn >= b.nextp
          THEN IF b.maxrec = None      \* session opened by a BAM control byte sent to a specific address: KeyError
               THEN [ns |-> [ns EXCEPT !.rcv = Put(@, [b EXCEPT !.data = got, !.act = clk])], out |-> <<>>, exc |-> TRUE]
               ELSE
               LET n == Min2(b.maxrec, b.total - b.nextp)
                   b2 == [b EXCEPT !.data = got, !.nextp = Min2(b.nextp + b.maxrec, b.total), !.dl = clk + T2, !.act = clk]
               IN R(Wake([ns EXCEPT !.rcv = Put(@, b2)]), << TxCts(da, sa, n, b.nextp + 1, b.pgn) >>)
          ELSE R(Wake([ns EXCEPT !.rcv = Put(@, [b EXCEPT !.data = got, !.dl = clk + T1, !.act = clk])]), <<>>)

\* ecu.notify(can_id, data): returns [ns, out, exc, unmodeled]
Notify(ns, cfg, id, d, clk) ==
    LET pf == IdPf(id)  ps == IdPs(id)  dp == IdDp(id)  sa == IdSa(id)  prio == IdPrio(id)
        U(r) == [ns |-> r.ns, out |-> r.out, exc |-> r.exc, unmodeled |-> FALSE]
    IN
    IF IsPdu2(pf) THEN U(R(ns, Deliver(cfg, "msg", prio, dp * 65536 + pf * 256 + ps, sa, GLOBAL, d)))
    ELSE IF ps # GLOBAL /\ ~Accepts(cfg, ps) THEN U(R(ns, <<>>))
    ELSE CASE pf = PF_TPCM /\ dp = 0 -> U(OnCm(ns, cfg, prio, sa, ps, d, clk))
           [] pf = PF_TPDT /\ dp = 0 -> U(OnDt(ns, cfg, prio, sa, ps, d, clk))
           [] pf \in {PF_ACLAIM, PF_REQ} /\ dp = 0 ->
                  [ns |-> ns, out |-> <<>>, exc |-> FALSE, unmodeled |-> TRUE]   \* Claim.tla / Dispatch.tla
           [] OTHER -> U(R(ns, Deliver(cfg, "msg", prio, dp * 65536 + pf * 256, sa, ps, d)))

(******************************* job pass **********************************)
\* pc: continuation of the job thread inside one pass over the sessions
\*   ph "idle"                              asleep (ns.su) or not yet started
\*   ph "rcv"   keys nw now did             scanning the snapshot of receive keys
\*   ph "snd"   keys nw now did             scanning the snapshot of send keys
\*   ph "burst" key keys nw now did         inside the while loop of SENDING_IN_CTS
\*   ph "bexit" key keys nw now did         after the loop: recalc next wake-up
\*   ph "end"   nw now did                  pass finished; ECU loop decides sleep / next pass
\*   ph "again" / "woken"                   about to start a pass (loop continues / woken up)
PcIdle == [ph |-> "idle"]
PassBegin(ns, clk) == [ph |-> "rcv", keys |-> Keys(ns.rcv), nw |-> clk + IdleSleep, now |-> clk, did |-> FALSE]

\* one granule.  clk = what time.time() returns now (>= pc.now).
\* result: [ns, pc, out, dead]
G(ns, pc, out) == [ns |-> ns, pc |-> pc, out |-> out, dead |-> FALSE]
Dead(ns, pc)   == [ns |-> ns, pc |-> pc, out |-> <<>>, dead |-> TRUE]

Granule(ns, cfg, pc, clk) ==
    CASE pc.ph = "rcv" ->
           IF pc.keys = <<>>
           THEN G(ns, [ph |-> "snd", keys |-> Keys(ns.snd), nw |-> pc.nw, now |-> pc.now, did |-> pc.did], <<>>)
           ELSE LET k == Head(pc.keys)
                    rest == [pc EXCEPT !.keys = Tail(@)]
                IN IF ~Has(ns.rcv, k) THEN G(ns, rest, <<>>)      \* entry completed meanwhile: skip it
                   ELSE LET b == Get(ns.rcv, k) IN
                        IF b.dl > pc.now THEN G(ns, [rest EXCEPT !.nw = Min2(@, b.dl)], <<>>)
                        ELSE G([ns EXCEPT !.rcv = Del(@, k)], [rest EXCEPT !.did = TRUE],
                               IF b.da # GLOBAL THEN << TxAbort(b.da, b.sa, R_TIMEOUT, b.pgn) >> ELSE <<>>)
      [] pc.ph = "snd" ->
           IF pc.keys = <<>>
           THEN G(ns, [ph |-> "end", nw |-> pc.nw, now |-> pc.now, did |-> pc.did], <<>>)
           ELSE LET k == Head(pc.keys)
                    rest == [pc EXCEPT !.keys = Tail(@)]
                IN IF ~Has(ns.snd, k) THEN Dead(ns, pc)
                   ELSE LET b == Get(ns.snd, k) IN
                        IF b.dl > pc.now THEN G(ns, [rest EXCEPT !.nw = Min2(@, b.dl)], <<>>)
                        ELSE CASE b.st = WAITING_CTS ->
                                    G([ns EXCEPT !.snd = Del(@, k)], [rest EXCEPT !.did = TRUE],
                                      << TxAbort(b.sa, b.da, R_TIMEOUT, b.pgn) >>)
                               [] b.st = SENDING_IN_CTS ->
                                    G(ns, [ph |-> "burst", key |-> k, keys |-> rest.keys, nw |-> pc.nw,
                                           now |-> pc.now, did |-> pc.did], <<>>)
                               [] b.st = SENDING_BM ->
                                    LET pkg == b.next
                                        b1 == [b EXCEPT !.next = @ + 1, !.dl = clk + cfg.bamInt, !.act = clk]
                                        more == b1.next < b.total
                                    IN G([ns EXCEPT !.snd = IF more THEN Put(@, b1) ELSE Del(@, k)],
                                         [rest EXCEPT !.did = TRUE, !.nw = IF more THEN Min2(@, b1.dl) ELSE @],
                                         << TxDt(b.sa, b.da, Dt21(b.data, pkg + 1)) >>)
                               [] OTHER -> \* TRANSMISSION_FINISHED
                                    G([ns EXCEPT !.snd = Del(@, k)], [rest EXCEPT !.did = TRUE], <<>>)
      [] pc.ph = "burst" ->
           LET b == Get(ns.snd, pc.key) IN
           IF b.next >= b.total
           THEN G(ns, [pc EXCEPT !.ph = "bexit"], <<>>)
           ELSE LET pkg == b.next
                    b1 == [b EXCEPT !.next = @ + 1, !.act = clk]
                    atEnd == pkg = b.waitOn
                    paced == cfg.cmdtInt # None
                    b2 == IF atEnd THEN [b1 EXCEPT !.st = WAITING_CTS, !.dl = clk + T3]
                          ELSE IF paced THEN [b1 EXCEPT !.dl = clk + cfg.cmdtInt]
                          ELSE b1
                IN G([ns EXCEPT !.snd = Put(@, b2)],
                     [pc EXCEPT !.ph = IF atEnd \/ paced THEN "bexit" ELSE "burst", !.did = TRUE],
                     << TxDt(b.sa, b.da, Dt21(b.data, pkg + 1)) >>)
      [] pc.ph = "bexit" ->
           LET b == Get(ns.snd, pc.key) IN
           G(ns, [ph |-> "snd", keys |-> pc.keys, nw |-> Min2(pc.nw, b.dl), now |-> pc.now, did |-> pc.did], <<>>)

\* the ECU loop after a pass (no timers registered in this specification):
\* [ns, pc, spin]
PassEnd(ns, pc, clk) ==
    IF pc.nw - clk > 0
    THEN IF ns.tok > 0
         THEN [ns |-> [ns EXCEPT !.tok = @ - 1], pc |-> [ph |-> "again"], spin |-> FALSE, slept |-> FALSE, until |-> 0]
         ELSE [ns |-> [ns EXCEPT !.su = pc.nw + WakeLat], pc |-> PcIdle, spin |-> FALSE, slept |-> TRUE, until |-> pc.nw + WakeLat]
    ELSE [ns |-> ns, pc |-> [ph |-> "again"], spin |-> ~pc.did, slept |-> FALSE, until |-> 0]

\* run granules until one emits, the pass ends, or the thread dies
RECURSIVE RunToEmit(_, _, _, _)
RunToEmit(ns, cfg, pc, clk) ==
    IF pc.ph \in {"end", "idle", "again", "woken"} THEN G(ns, pc, <<>>)
    ELSE LET r == Granule(ns, cfg, pc, clk) IN
         IF r.dead \/ r.out # <<>> THEN r ELSE RunToEmit(r.ns, cfg, r.pc, clk)

\* a whole pass, atomically: [ns, pc (ph = "end"), out, dead]
RECURSIVE RunPass(_, _, _, _, _)
RunPass(ns, cfg, pc, clk, acc) ==
    IF pc.ph \in {"end", "idle", "again", "woken"} THEN [ns |-> ns, pc |-> pc, out |-> acc, dead |-> FALSE]
    ELSE LET r == Granule(ns, cfg, pc, clk) IN
         IF r.dead THEN [ns |-> r.ns, pc |-> r.pc, out |-> acc, dead |-> TRUE]
         ELSE RunPass(r.ns, cfg, r.pc, clk, acc \o r.out)
=============================================================================
