---------------------------- MODULE MC_Tp22_c02 -----------------------------
(* C02 model: two FD stacks, pools scaled to 2 RTS/CTS + 1 BAM numbers, traffic in both directions  *)
(* at once, more submissions than the pool holds (refusal), every interleaving.                       *)
EXTENDS Tp22
Lst(a) == << [tag |-> "ecu", kind |-> "all", adr |-> -1] >>
MC_Nodes == {"A", "B"}
MC_NodeCfg == [n \in MC_Nodes |->
    CASE n = "A" -> [maxc |-> 1, bamInt |-> 10, cmdtInt |-> -1, paceMax |-> -1, cas |-> <<16>>, lst |-> Lst(16), lat |-> 1]
      [] n = "B" -> [maxc |-> 2, bamInt |-> 10, cmdtInt |-> -1, paceMax |-> -1, cas |-> <<32>>, lst |-> Lst(32), lat |-> 1]]
Pay(n, s) == [i \in 1..n |-> (s * 16 + i) % 256]
M(src, sa, pf, ps, n, s) == [src |-> src, sa |-> sa, dp |-> 0, pf |-> pf, ps |-> ps, prio |-> 6, data |-> Pay(n, s), tl |-> 0, ff |-> 3]
MC_Msgs == << M("A", 16, 208, 32, 121, 1), M("B", 32, 208, 16, 61, 2), M("A", 16, 209, 32, 61, 3), M("A", 16, 210, 32, 62, 4) >>
=============================================================================
