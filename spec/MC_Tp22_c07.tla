---------------------------- MODULE MC_Tp22_c07 -----------------------------
(* C07 model (FD): hostile / malformed / stale frames at ANY point of a running transfer and of idle  *)
(* stacks (sessions 0, 1 and out-of-pool 9), then a fresh transfer; pools 2+1.                        *)
EXTENDS Tp22
Lst(a) == << [tag |-> "ecu", kind |-> "all", adr |-> -1] >>
MC_Nodes == {"A", "B"}
MC_NodeCfg == [n \in MC_Nodes |->
    CASE n = "A" -> [maxc |-> 2, bamInt |-> 10, cmdtInt |-> -1, paceMax |-> -1, cas |-> <<16>>, lst |-> Lst(16), lat |-> 1]
      [] n = "B" -> [maxc |-> 1, bamInt |-> 10, cmdtInt |-> -1, paceMax |-> -1, cas |-> <<32>>, lst |-> Lst(32), lat |-> 1]]
Pay(n, s) == [i \in 1..n |-> (s * 16 + i) % 256]
M(src, sa, pf, ps, n, s) == [src |-> src, sa |-> sa, dp |-> 0, pf |-> pf, ps |-> ps, prio |-> 6, data |-> Pay(n, s), tl |-> 0, ff |-> 3]
MC_Msgs == << M("A", 16, 208, 32, 121, 1), M("A", 16, 208, 32, 61, 2) >>
H(to, pf, da, sa, d) == [to |-> to, id |-> MkId(7, 0, 0, pf, da, sa), data |-> d]
P == 53248
X == 16777215
MC_Adv == {
   H("A", PF_FDCM, 16, 32, FdCm(FC_CTS, 0, X, 1, 1, 0, P)),  H("A", PF_FDCM, 16, 32, FdCm(FC_CTS, 0, X, 2, 2, 0, P)),
   H("A", PF_FDCM, 16, 32, FdCm(FC_CTS, 0, X, 1, 0, 0, P)), H("A", PF_FDCM, 16, 32, FdCm(FC_CTS, 0, X, 3, 1, 0, P)), H("A", PF_FDCM, 16, 32, FdCm(FC_CTS, 0, X, 4, 1, 0, P)),  H("A", PF_FDCM, 16, 32, FdCm(FC_CTS, 0, X, 9, 1, 0, P)),
   H("A", PF_FDCM, 16, 32, FdCm(FC_CTS, 0, X, 0, 1, 0, P)),  H("A", PF_FDCM, 16, 32, FdCm(FC_CTS, 9, X, 1, 1, 0, P)),
   H("A", PF_FDCM, 16, 32, FdCm(FC_EOMA, 0, 121, 3, 255, 255, P)), H("A", PF_FDCM, 16, 32, FdCm(FC_EOMA, 9, 121, 3, 255, 255, P)),
   H("A", PF_FDCM, 16, 32, FdCm(FC_ABORT, 0, X, X, 255, 1, P)),
   H("A", PF_FDCM, 16, 32, FdCm(FC_RTS, 0, 121, 3, 1, 0, P)), H("A", PF_FDCM, 16, 32, FdCm(FC_RTS, 9, 61, 2, 2, 0, P)),
   H("A", PF_FDCM, 16, 32, FdCm(FC_EOMS, 0, 121, 3, 0, 0, P)), H("A", PF_FDCM, 16, 32, FdCm(FC_EOMS, 9, 61, 2, 0, 0, P)),
   H("A", PF_FDCM, 255, 32, FdCm(FC_BAM, 0, 61, 2, 255, 0, P)), H("A", PF_FDCM, 255, 32, FdCm(FC_BAM, 5, 61, 2, 255, 0, P)),
   H("A", PF_FDCM, 16, 32, FdCm(FC_BAM, 0, 61, 2, 255, 0, P)),
   H("A", PF_FDDT, 16, 32, <<0, 1, 0, 0, 1, 2, 3, 4>>), H("A", PF_FDDT, 255, 32, <<0, 1, 0, 0, 1, 2, 3, 4>>),
   H("A", PF_FDDT, 16, 32, <<0, 0, 0, 0, 1, 2, 3, 4>>), H("A", PF_FDDT, 16, 32, <<0, 1, 0, 0>>),
   H("A", PF_FDCM, 16, 32, <<0, 1, 2>>), H("A", PF_FDCM, 16, 32, FdCm(7, 0, 1, 1, 1, 1, P)),
   H("B", PF_FDCM, 32, 16, FdCm(FC_ABORT, 0, X, X, 255, 3, P)), H("B", PF_FDCM, 32, 16, FdCm(FC_EOMS, 0, 121, 3, 0, 0, P)) }
\* pairs of hostile frames (MaxAdv = 2) are drawn from the frames that address the sessions of the running transfer
MC_Adv2 == {
   H("A", PF_FDCM, 16, 32, FdCm(FC_CTS, 0, X, 1, 1, 0, P)),  H("A", PF_FDCM, 16, 32, FdCm(FC_CTS, 0, X, 1, 0, 0, P)),
   H("A", PF_FDCM, 16, 32, FdCm(FC_CTS, 0, X, 3, 1, 0, P)),  H("A", PF_FDCM, 16, 32, FdCm(FC_CTS, 0, X, 9, 1, 0, P)),
   H("A", PF_FDCM, 16, 32, FdCm(FC_EOMA, 0, 61, 2, 255, 255, P)), H("A", PF_FDCM, 16, 32, FdCm(FC_ABORT, 0, X, X, 255, 1, P)),
   H("A", PF_FDCM, 16, 32, FdCm(FC_RTS, 0, 121, 3, 1, 0, P)), H("A", PF_FDCM, 16, 32, FdCm(FC_EOMS, 0, 121, 3, 0, 0, P)),
   H("A", PF_FDCM, 255, 32, FdCm(FC_BAM, 0, 61, 2, 255, 0, P)), H("A", PF_FDDT, 16, 32, <<0, 1, 0, 0, 1, 2, 3, 4>>),
   H("B", PF_FDCM, 32, 16, FdCm(FC_ABORT, 0, X, X, 255, 3, P)), H("B", PF_FDCM, 32, 16, FdCm(FC_EOMS, 0, 121, 3, 0, 0, P)) }
=============================================================================
