SPECIFICATION Spec
INVARIANT LayoutsOk
INVARIANT IdRoundTrip
INVARIANT PgnRule
INVARIANT Seg21Ok
INVARIANT Seg22Ok
INVARIANT CmOk
INVARIANT FdLenOk
INVARIANT MpgOk
INVARIANT DtcOk
INVARIANT LampOk
INVARIANT NameOk
CHECK_DEADLOCK FALSE
