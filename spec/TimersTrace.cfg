SPECIFICATION Spec
CONSTANTS
  IdleSleep = 5000000
  WakeLat = 1
INVARIANT Verdict
CHECK_DEADLOCK FALSE
