------------------------------- MODULE Mon21 --------------------------------
(***************************************************************************)
(* Property monitors for J1939-21 traffic, independent of the stack model: *)
(*  Dm* - delivery monitor (C01, C06, C10): every delivery is a message    *)
(*        somebody submitted for this listener, intact, at most once; at   *)
(*        the end of a fault-free scenario every message reached every     *)
(*        addressed listener.                                              *)
(*  Bm* - bus monitor (C03, C09): decodes every frame on the bus with the  *)
(*        SAE layouts of Codec, reassembles every transfer independently   *)
(*        of the stack, and checks flow control, ordering and pacing.      *)
(* Both are evaluated by TLC at every step of every validated trace and    *)
(* at every state of the model (Tp21.tla).                                 *)
(***************************************************************************)
EXTENDS Addr, TLC

(***************************** delivery monitor ****************************)
\* acc: accepted messages [src, sa, da, pgn, data, cm]; got: <<i, node, tag>>; eom: <<i, tag>>
DmInit == [acc |-> <<>>, got |-> {}, eom |-> {}, nsub |-> 0, refused |-> {}, dll |-> 21]
DmInit22 == [DmInit EXCEPT !.dll = 22]
\* the end-of-message acknowledge frame reported to the originator, per data link layer
EomaOk(dll, d, size, pgn) ==
    IF dll = 21 THEN d = CmEoma(size, NumPackets21(size), pgn)
    ELSE Len(d) >= 12 /\ d[1] % 16 = FC_EOMA /\ Rd3(d, 2) = size /\ Rd3(d, 5) = NumSegments22(size) /\ Rd3(d, 10) = pgn

DmAccept(dm, n, a) ==
    LET da == IF a.ps = GLOBAL \/ IsPdu2(a.pf) THEN GLOBAL ELSE a.ps
        m == [src |-> n, sa |-> a.sa, da |-> da, pgn |-> PgnOf(a.dp, a.pf, a.ps), data |-> a.data,
              cm |-> (Len(a.data) > (IF dm.dll = 21 THEN 8 ELSE 60) /\ da # GLOBAL), sub |-> dm.nsub + 1,
              t |-> (IF "t" \in DOMAIN a THEN a.t ELSE 0), tl |-> (IF "tl" \in DOMAIN a THEN a.tl ELSE 0),
              ff |-> (IF "ff" \in DOMAIN a THEN a.ff ELSE 3)]
    IN [dm EXCEPT !.acc = Append(@, m), !.nsub = @ + 1]
\* a submission that send_pgn refused (returned False)
DmRefuse(dm) == [dm EXCEPT !.nsub = @ + 1, !.refused = @ \cup {dm.nsub + 1}]

ListenerOf(cfg, tag) == cfg.lst[CHOOSE i \in 1..Len(cfg.lst) : cfg.lst[i].tag = tag]

\* h: the delivery (callback) record; n: the node it happened on
DmDeliver(dm, cfgs, n, h) ==
    IF h.kind = "msg"
    THEN LET cand == {i \in 1..Len(dm.acc) :
                        /\ dm.acc[i].src # n
                        /\ dm.acc[i].sa = h.sa /\ dm.acc[i].pgn = h.pgn /\ dm.acc[i].data = h.data
                        /\ Reaches(cfgs[n], ListenerOf(cfgs[n], h.tag), dm.acc[i].da)
                        /\ <<i, n, h.tag>> \notin dm.got}
         IN IF cand = {} THEN [dm |-> dm, bad |-> {"delivery that is not an intact, not yet delivered message submitted for this listener"}]
            ELSE LET i == CHOOSE x \in cand : \A y \in cand : x <= y
                 IN [dm |-> [dm EXCEPT !.got = @ \cup {<<i, n, h.tag>>}], bad |-> {}]
    ELSE \* end-of-message acknowledgement reported to the originator's listeners
         LET cand == {i \in 1..Len(dm.acc) :
                        /\ dm.acc[i].src = n /\ dm.acc[i].cm
                        /\ dm.acc[i].da = h.sa /\ dm.acc[i].pgn = h.pgn
                        /\ EomaOk(dm.dll, h.data, Len(dm.acc[i].data), dm.acc[i].pgn)
                        /\ <<i, h.tag>> \notin dm.eom}
         IN IF cand = {} THEN [dm |-> dm, bad |-> {"end-of-message notification without a completed transfer"}]
            ELSE LET i == CHOOSE x \in cand : \A y \in cand : x <= y
                 IN [dm |-> [dm EXCEPT !.eom = @ \cup {<<i, h.tag>>}], bad |-> {}]

\* at the end of a scenario in which nothing was lost: everything arrived everywhere
Undelivered(dm, tr, i) ==
    /\ dm.acc[i].ff # 2            \* base-format (FBFF) multi-PG frames are not received by the stacks
    /\ \E m \in DOMAIN tr.cfg : \E j \in 1..Len(tr.cfg[m].lst) :
        /\ m # dm.acc[i].src
        /\ Reaches(tr.cfg[m], tr.cfg[m].lst[j], dm.acc[i].da)
        /\ <<i, m, tr.cfg[m].lst[j].tag>> \notin dm.got
\* expect.all : nothing was lost, so every accepted message must have arrived everywhere
\* expect.must: submissions (by number) that must have been accepted and delivered everywhere
\* expect.accept: submissions that must have been accepted
DmFinal(dm, tr) ==
    (IF tr.expect.all /\ \E i \in 1..Len(dm.acc) : Undelivered(dm, tr, i)
     THEN {"accepted message not delivered to an addressed listener"} ELSE {})
    \cup
    (IF "must" \in DOMAIN tr.expect /\ \E k \in 1..Len(tr.expect.must) :
           \/ ~\E i \in 1..Len(dm.acc) : dm.acc[i].sub = tr.expect.must[k]
           \/ \E i \in 1..Len(dm.acc) : dm.acc[i].sub = tr.expect.must[k] /\ Undelivered(dm, tr, i)
     THEN {"follow-up transfer not accepted or not delivered"} ELSE {})
    \cup
    (IF "accept" \in DOMAIN tr.expect /\ \E k \in 1..Len(tr.expect.accept) : tr.expect.accept[k] \in dm.refused
     THEN {"send_pgn refused although no transfer on that pair is in progress"} ELSE {})

(******************************** bus monitor ******************************)
\* connections: ordered map key -> [key, size, total, limit, pgn, hi, nxt, lastDt, bam, buf, start]
BmInit == <<>>
BHas(m, k) == \E i \in 1..Len(m) : m[i].key = k
BGet(m, k) == m[CHOOSE i \in 1..Len(m) : m[i].key = k]
BPut(m, r) == IF BHas(m, r.key) THEN [i \in 1..Len(m) |-> IF m[i].key = r.key THEN r ELSE m[i]] ELSE Append(m, r)
BDel(m, k) == SelectSeq(m, LAMBDA r : r.key # k)
CKey(sa, da) == sa * 256 + da

\* e: a frame on the bus [ev ("tx": from a stack under test, "ptx": from the reference peer), id, data, t]
\* cfgs[n]: configuration of the sending stack (maxc, bamInt, cmdtInt) when e.ev = "tx"
DecodesTo(c, acc, sa, da) ==
    \E i \in 1..Len(acc) :
        /\ acc[i].sa = sa /\ acc[i].da = da /\ acc[i].pgn = c.pgn
        /\ Len(acc[i].data) = c.size /\ c.total = NumPackets21(c.size)
        /\ Len(c.buf) = 7 * c.total
        /\ SubSeq(c.buf, 1, c.size) = acc[i].data
        /\ \A j \in (c.size + 1)..Len(c.buf) : c.buf[j] = 255

BmStep(bm, acc, cfgs, n, e) ==
    LET pf == IdPf(e.id)  da == IdPs(e.id)  sa == IdSa(e.id)  d == e.data
        stack == e.ev = "tx"
        ok(b) == [bm |-> b, bad |-> {}]
        ko(why) == [bm |-> bm, bad |-> {why}]
    IN
    IF IdDp(e.id) # 0 \/ pf \notin {PF_TPCM, PF_TPDT} \/ Len(d) < 8 THEN ok(bm)
    ELSE IF pf = PF_TPCM THEN
       CASE d[1] = CB_RTS ->
              ok(BPut(bm, [key |-> CKey(sa, da), size |-> Rd2(d, 2), total |-> d[4], limit |-> d[5], pgn |-> Rd3(d, 6),
                           hi |-> 0, nxt |-> 1, lastDt |-> -1, bam |-> FALSE, buf |-> <<>>, start |-> e.t, fresh |-> TRUE]))
         [] d[1] = CB_BAM ->
              ok(BPut(bm, [key |-> CKey(sa, da), size |-> Rd2(d, 2), total |-> d[4], limit |-> 255, pgn |-> Rd3(d, 6),
                           hi |-> d[4], nxt |-> 1, lastDt |-> -1, bam |-> TRUE, buf |-> <<>>, start |-> e.t, fresh |-> FALSE]))
         [] d[1] = CB_CTS ->
              IF ~BHas(bm, CKey(da, sa)) THEN ok(bm)
              ELSE LET c == BGet(bm, CKey(da, sa))   num == d[2]   next == d[3] IN
                   IF stack /\ num > c.limit THEN ko("CTS grants more packets than the RTS allows")
                   ELSE IF stack /\ num > cfgs[n].maxc THEN ko("CTS grants more packets than the responder's configured maximum")
                   ELSE IF stack /\ num > 0 /\ num > c.total - next + 1 THEN ko("CTS grants more packets than remain")
                   ELSE ok(BPut(bm, [c EXCEPT !.hi = IF num = 0 THEN c.nxt - 1 ELSE next + num - 1, !.fresh = TRUE]))
         [] d[1] = CB_EOMA ->
              IF ~BHas(bm, CKey(da, sa)) THEN ok(bm)
              ELSE LET c == BGet(bm, CKey(da, sa)) IN
                   IF stack /\ (Rd2(d, 2) # c.size \/ d[4] # c.total \/ Rd3(d, 6) # c.pgn)
                   THEN ko("end-of-message acknowledge does not match the RTS")
                   ELSE IF stack /\ c.nxt <= c.total THEN ko("end-of-message acknowledge before all packets were on the bus")
                   ELSE ok(BDel(bm, CKey(da, sa)))
         [] d[1] = CB_ABORT ->
              \* an abort ends a connection but does not un-clear packets a CTS has cleared before (the stack
              \* finishes the window it was granted; the property is about clearance, not about aborts)
              ok(bm)
         [] OTHER -> ok(bm)
    ELSE \* TP.DT
       IF ~BHas(bm, CKey(sa, da))
       THEN IF stack THEN ko("data packet without an open connection") ELSE ok(bm)
       ELSE LET c == BGet(bm, CKey(sa, da))   seqn == d[1]
                gap == e.t - (IF c.lastDt < 0 THEN c.start ELSE c.lastDt)
                c2 == [c EXCEPT !.nxt = seqn + 1, !.lastDt = e.t, !.buf = @ \o Tail(d), !.fresh = FALSE]
            IN
            IF stack /\ seqn # c.nxt THEN ko("data packet out of sequence")
            ELSE IF stack /\ seqn > c.hi THEN ko("data packet not cleared by a CTS")
            ELSE
            LET \* clauses about WHEN the packet is sent do not stop the monitor from following the connection
                late == IF stack /\ c.bam /\ gap < cfgs[n].bamInt THEN {"BAM data packets closer than the minimum interval"}
                        ELSE IF stack /\ ~c.bam /\ cfgs[n].cmdtInt >= 0 /\ c.lastDt >= 0 /\ gap < cfgs[n].cmdtInt
                        THEN (IF c.fresh THEN {"connection-mode data packets closer than the configured minimum interval (first packet after a CTS)"}
                              ELSE {"connection-mode data packets closer than the configured minimum interval (within a window)"})
                        ELSE IF stack /\ c.bam /\ cfgs[n].paceMax >= 0 /\ gap > cfgs[n].paceMax THEN {"BAM data packets further apart than allowed"}
                        ELSE {}
                okt(b) == [bm |-> b, bad |-> late]
            IN
            IF stack /\ Len(d) # 8 THEN ko("data packet is not 8 bytes long")
            ELSE IF stack /\ c2.nxt > c2.total /\ ~DecodesTo(c2, acc, sa, da)
                 THEN ko("frames on the bus do not decode (SAE layout) to a submitted message")
            ELSE okt(IF c2.nxt > c2.total
                    THEN (IF c.bam THEN BDel(bm, c.key) ELSE BPut(bm, [c2 EXCEPT !.buf = <<>>]))
                    ELSE BPut(bm, c2))

\* in a fault-free scenario every connection-mode transfer is acknowledged and closed in the end
BmFinal(bm, tr) == IF tr.expect.all /\ \E i \in 1..Len(bm) : ~bm[i].bam THEN {"connection never acknowledged (no end-of-message acknowledge on the bus)"} ELSE {}
=============================================================================
