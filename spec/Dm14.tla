-------------------------------- MODULE Dm14 --------------------------------
(***************************************************************************)
(* Model of DM14 memory access between a client and a serving stack        *)
(* (Dm14Core lifted to actions): histories of read / write operations with *)
(* or without seed/key, right and wrong keys, a serving application that   *)
(* proceeds or refuses at the proceed callback or at respond(), an absent  *)
(* server, and an intruder that injects DM14 requests from another source  *)
(* address or - from the client's own address - for another pointer at     *)
(* ANY point of a running transaction (C17, C18, C19).                     *)
(***************************************************************************)
EXTENDS Dm14Core

CONSTANTS Ops,          \* sequence of operations [cmd, direct, ptr, count, bytes, alg, k]
          Sec, SrvK,    \* seed/key configured on the server; its key parameter
          Seeds,        \* seeds the generator may hand out
          Responds,     \* what the application may pass to respond(): [proceed, data, error, edcp]
          Absent,       \* the server does not exist
          Intruders,    \* requests the intruder may inject: [sa, ptr]
          MaxIntr
CLIENT == 249  SERVER == 212

VARIABLES c, s, net, nextop, results, asked, resps, rets, busyans, keyok, nintr, cur, reqop
vars == <<c, s, net, nextop, results, asked, resps, rets, busyans, keyok, nintr, cur, reqop>>
Cfg == [sec |-> Sec, k |-> SrvK]

Init == /\ c = ClIdle /\ s = SvIdle /\ net = <<>> /\ nextop = 1 /\ results = <<>>
        /\ asked = <<>> /\ resps = <<>> /\ rets = <<>> /\ busyans = <<>> /\ keyok = FALSE /\ nintr = 0
        /\ reqop = 0
        /\ cur = [willing |-> TRUE, data |-> <<>>, answered |-> FALSE, selfintr |-> FALSE]

\* put the parameter groups of `out` on the bus (callbacks / returns go to the ghosts)
Pdus(out, from) == [i \in 1..Len(SelectSeq(out, LAMBDA o : o.k = "pdu")) |->
                       LET o == SelectSeq(out, LAMBDA x : x.k = "pdu")[i] IN [to |-> o.da, from |-> from, pgn |-> o.pgn, f |-> o.f]]
Rets(out) == SelectSeq(out, LAMBDA o : o.k = "respret")

Call ==
    /\ c.st = "idle" /\ nextop <= Len(Ops)
    /\ LET r == ClStart(Ops[nextop], SERVER) IN
       /\ c' = r.c /\ net' = net \o Pdus(r.out, CLIENT)
    /\ cur' = [willing |-> TRUE, data |-> <<>>, answered |-> FALSE, selfintr |-> FALSE]
    /\ UNCHANGED <<s, nextop, results, asked, resps, rets, busyans, keyok, nintr, reqop>>

Deliver ==
    /\ net # <<>>
    /\ LET m == Head(net)  rest == Tail(net) IN
       CASE m.to = CLIENT /\ m.pgn = PGN_DM15 ->
              LET r == ClOnDm15(c, m.f, m.from) IN
              /\ c' = r.c /\ net' = rest \o Pdus(r.out, CLIENT)
              /\ UNCHANGED <<s, rets, busyans, keyok, cur, reqop>>
         [] m.to = CLIENT /\ m.pgn = PGN_DM16 ->
              /\ c' = ClOnDm16(c, m.f.data, m.from)
              \* a long DM16 is acknowledged by the client's transport layer
              /\ LET a == IF Len(m.f.data) > 7 THEN SvOnAck(s) ELSE [s |-> s, out |-> <<>>] IN
                 /\ s' = a.s /\ net' = rest \o Pdus(a.out, SERVER)
              /\ UNCHANGED <<rets, busyans, keyok, cur, reqop>>
         [] m.to = SERVER /\ m.pgn = PGN_DM14 /\ ~Absent ->
              LET r == SvOnDm14(s, Cfg, m.f, m.from) IN
              /\ s' = r.s /\ net' = rest \o Pdus(r.out, SERVER)
              /\ busyans' = IF r.busy THEN Append(busyans, [from |-> m.from, to |-> r.out[1].da, status |-> r.out[1].f.status]) ELSE busyans
              /\ keyok' = IF s.st = "w_key" /\ ~r.busy /\ r.s.st = "ask" THEN TRUE ELSE IF r.s.st = "idle" THEN FALSE ELSE keyok
              /\ cur' = IF s.st = "w_key" /\ ~r.busy /\ r.s.st = "idle" THEN [cur EXCEPT !.willing = FALSE] ELSE cur
              /\ reqop' = IF s.st = "idle" /\ ~r.busy /\ r.s.st # "idle" THEN nextop ELSE reqop
              /\ UNCHANGED <<c, rets>>
         [] m.to = SERVER /\ m.pgn = PGN_DM16 /\ ~Absent ->
              LET r == SvOnDm16(s, m.f.data, m.from) IN
              /\ s' = r.s /\ net' = rest \o Pdus(r.out, SERVER) /\ rets' = rets \o Rets(r.out)
              /\ UNCHANGED <<c, busyans, keyok, cur, reqop>>
         [] OTHER -> /\ net' = rest /\ UNCHANGED <<c, s, rets, busyans, keyok, cur, reqop>>
    /\ UNCHANGED <<nextop, results, asked, resps, nintr>>

GenSeed(seed) ==
    /\ s.st = "gen"
    /\ LET r == SvSeed(s, seed) IN s' = r.s /\ net' = net \o Pdus(r.out, SERVER)
    /\ UNCHANGED <<c, nextop, results, asked, resps, rets, busyans, keyok, nintr, cur, reqop>>
Ask(ans) ==
    /\ s.st = "ask"
    /\ asked' = Append(asked, [cb |-> ProceedCb(s), keyok |-> keyok, op |-> reqop])
    /\ LET r == SvAnswer(s, ans) IN s' = r.s /\ net' = net \o Pdus(r.out, SERVER)
    /\ cur' = IF ans THEN cur ELSE [cur EXCEPT !.willing = FALSE]
    /\ keyok' = IF ans THEN keyok ELSE FALSE
    /\ UNCHANGED <<c, nextop, results, resps, rets, busyans, nintr, reqop>>
Respond(r0) ==
    /\ s.st = "w_app"
    /\ LET r == SvRespond(s, r0) IN
       /\ s' = r.s /\ net' = net \o Pdus(r.out, SERVER) /\ rets' = rets \o Rets(r.out)
    /\ resps' = Append(resps, [r |-> r0, op |-> reqop, keyok |-> keyok])
    /\ cur' = [cur EXCEPT !.willing = @ /\ r0.proceed, !.data = r0.data, !.answered = TRUE]
    /\ UNCHANGED <<c, nextop, results, asked, busyans, keyok, nintr, reqop>>
\* read() / write() returns: when the transaction is over for the client, or by time-out when nothing can happen any more
Return ==
    /\ c.st # "idle"
    /\ \/ c.st \in {"ok", "failed", "nokey"}
       \/ (net = <<>> /\ s.st \notin {"gen", "ask", "w_app"})          \* time-out
    /\ Len(SelectSeq(net, LAMBDA m : m.from = CLIENT)) = 0
    /\ results' = Append(results, [op |-> nextop, res |-> ClResult(c), st |-> c.st, willing |-> cur.willing, data |-> cur.data, selfintr |-> cur.selfintr])
    /\ c' = ClIdle /\ nextop' = nextop + 1
    /\ UNCHANGED <<s, net, asked, resps, rets, busyans, keyok, nintr, cur, reqop>>
\* the intruding request reaches the serving side while a transaction is open there
Intrude(i) ==
    /\ nintr < MaxIntr /\ s.st # "idle" /\ ~Absent
    /\ LET p == [count |-> 1, direct |-> 1, cmd |-> CMD_READ, ptr |-> i.ptr, kf |-> USER_LEVEL]
           r == SvOnDm14(s, Cfg, p, i.sa) IN
       /\ s' = r.s /\ net' = net \o Pdus(r.out, SERVER)
       /\ busyans' = IF r.busy THEN Append(busyans, [from |-> i.sa, to |-> r.out[1].da, status |-> r.out[1].f.status]) ELSE busyans
       /\ keyok' = IF s.st = "w_key" /\ ~r.busy /\ r.s.st = "ask" THEN TRUE ELSE IF r.s.st = "idle" THEN FALSE ELSE keyok
    /\ nintr' = nintr + 1
    \* a busy answer to a request from the client's own address legitimately reaches (and fails) the running client
    /\ cur' = IF i.sa = CLIENT THEN [cur EXCEPT !.selfintr = TRUE] ELSE cur
    /\ UNCHANGED <<c, nextop, results, asked, resps, rets, reqop>>

Next == Call \/ Deliver \/ Return \/ (\E sd \in Seeds : GenSeed(sd)) \/ (\E a \in BOOLEAN : Ask(a))
        \/ (\E r \in Responds : Respond(r)) \/ (\E i \in Intruders : Intrude(i))
Spec == Init /\ [][Next]_vars

(******************************* properties ********************************)
\* C18: nothing is handed to the application, and nothing is served, before the right key arrived
NoServiceWithoutKey == /\ \A i \in 1..Len(asked) : Sec => asked[i].keyok
                       /\ (Sec /\ s.st \in {"w_app", "w_dm16", "w_eoma", "w_close"}) => keyok
\* C17: the application is told what the client asked for
ServerToldTheRequest == \A i \in 1..Len(asked) :
    LET q == asked[i].cb  op == Ops[asked[i].op] IN
    q.cmd = op.cmd /\ q.ptr = op.ptr /\ q.ptype = op.direct /\ q.count = op.count /\ q.sa = CLIENT
\* C19: an intruding request is never handed to the application; an answer to it is "operation failed" to its sender
IntruderNeverServed == \A i \in 1..Len(asked) : asked[i].cb.sa = CLIENT /\ asked[i].cb.ptr = Ops[asked[i].op].ptr
BusyGoesToSender == \A i \in 1..Len(busyans) : busyans[i].to = busyans[i].from /\ busyans[i].status = ST_FAILED
\* C17 / C19 (non-disturbance): an operation succeeds exactly when key, application and respond() were willing, whatever
\* the intruder does; a successful read returns exactly the bytes the application supplied for it
Outcome == \A i \in 1..Len(results) :
    LET r == results[i]  op == Ops[r.op] IN
    /\ (~Absent /\ r.willing /\ r.st # "nokey" /\ \A j \in 1..i : ~results[j].selfintr) => r.st = "ok"
    /\ (r.st = "ok" /\ op.cmd = CMD_READ) => r.res.data = r.data
    /\ ~r.willing => r.st # "ok"
    /\ Absent => (r.st = "w_first" /\ r.res.raises)
WriteStoresWritten == \A i \in 1..Len(rets) : ~rets[i].none => \E j \in 1..Len(Ops) : Ops[j].cmd = CMD_WRITE /\ rets[i].data = Ops[j].bytes
\* C17 / C18: both sides idle again once a history is over (whatever failed on the way)
\* (a transaction the client abandoned because a busy answer to a request from its own address reached it is the one
\* exception the property names: the server has no time-out of its own)
BothIdleAfter == (net = <<>> /\ c.st = "idle" /\ s.st \notin {"gen", "ask", "w_app"}
                  /\ ~cur.selfintr /\ \A i \in 1..Len(results) : ~results[i].selfintr) => s.st = "idle"
=============================================================================
