------------------------------- MODULE Claim --------------------------------
(***************************************************************************)
(* Model of 2..4 controller applications on separate stacks claiming       *)
(* addresses (C04) and trying to send in every state (C13): CaCore's       *)
(* handlers lifted to actions, a bus with per-receiver latency (0 = the    *)
(* contending reply is processed inside the send call), start times and    *)
(* claim delays on a grid, the claim timers served by the job threads.     *)
(***************************************************************************)
EXTENDS CaCore

CONSTANTS Nodes,        \* set of node names (one CA each)
          CaCfg,        \* [Nodes -> [name, pref, aac, lat, starts (set of start times), delays (set of claim delays)]]
          Horizon

VARIABLES node, pc, wire, now, started, claimed, sabad, tried
vars == <<node, pc, wire, now, started, claimed, sabad, tried>>

Cfg0 == [lst |-> <<>>, reqtag |-> <<"rq">>]
Init == /\ node = [n \in Nodes |-> [InitNode(<<InitCa(CaCfg[n].name, CaCfg[n].pref, CaCfg[n].aac)>>) EXCEPT !.su = IdleSleep + WakeLat]]
        /\ pc = [n \in Nodes |-> [ph |-> "idle"]]
        /\ wire = [n \in Nodes |-> <<>>]
        /\ now = 0 /\ started = {} /\ claimed = <<>> /\ sabad = FALSE /\ tried = 0

Running == {n \in Nodes : pc[n].ph # "idle"}
Due(n) == wire[n] # <<>> /\ Head(wire[n]).at <= now
Due0 == {n \in Nodes : Due(n) /\ CaCfg[n].lat = 0}
Calm == Running = {} /\ Due0 = {}

IsClaim(o) == IdPf(o.id) = PF_ACLAIM
\* C13: every frame a stack emits is a claim / cannot-claim, a request for address claim from 254, or comes
\* from the address its CA holds at that moment (ca: the CA state AFTER the handler step)
FrameOk(ca, o) == \/ IsClaim(o) /\ (IdSa(o.id) = NULLADDR \/ IdSa(o.id) = (IF ca.st = NORMAL THEN ca.adr ELSE ca.ann))
                  \/ (IdPf(o.id) = PF_REQ /\ IdSa(o.id) = NULLADDR /\ Rd3(o.data, 1) = PGN_ACLAIM)
                  \/ (ca.st = NORMAL /\ ca.adr = IdSa(o.id))
RECURSIVE Put(_, _, _, _)
Put(w, n, outs, i) ==
    IF i > Len(outs) THEN w
    ELSE Put([m \in Nodes |-> IF m # n THEN Append(w[m], [id |-> outs[i].id, data |-> outs[i].data, at |-> now + CaCfg[m].lat]) ELSE w[m]],
             n, outs, i + 1)
Emit(n, outs, w0, ca) ==
    /\ wire' = Put(w0, n, outs, 1)
    /\ claimed' = claimed \o [i \in 1..Len(outs) |-> [adr |-> IdSa(outs[i].id), name |-> outs[i].data, claim |-> IsClaim(outs[i])]]
    /\ sabad' = (sabad \/ \E i \in 1..Len(outs) : ~FrameOk(ca, outs[i]))

StartCa(n) ==
    /\ Calm /\ n \notin started /\ now \in CaCfg[n].starts
    /\ \E d \in CaCfg[n].delays : node' = [node EXCEPT ![n] = Start(node[n], 1, d, now)]
    /\ started' = started \cup {n}
    /\ UNCHANGED <<pc, wire, now, claimed, sabad, tried>>

Recv(n) ==
    /\ Due(n) /\ (IF Due0 # {} THEN n \in Due0 ELSE Running = {})
    /\ LET f == Head(wire[n])
           r == Notify(node[n], Cfg0, f.id, f.data)
       IN /\ node' = [node EXCEPT ![n] = r.ns]
          /\ Emit(n, SelectSeq(r.out, LAMBDA o : o.k = "tx"), [wire EXCEPT ![n] = Tail(@)], r.ns.cas[1])
    /\ UNCHANGED <<pc, now, started, tried>>

JobWake(n) ==
    /\ Calm /\ pc[n].ph = "idle"
    /\ \/ /\ node[n].tok > 0 /\ node' = [node EXCEPT ![n].tok = @ - 1, ![n].su = None]
       \/ /\ node[n].tok = 0 /\ node[n].su # None /\ node[n].su <= now /\ node' = [node EXCEPT ![n].su = None]
    /\ pc' = [pc EXCEPT ![n] = PassBegin(node[n], now)]
    /\ UNCHANGED <<wire, now, started, claimed, sabad, tried>>

JobStep(n) ==
    /\ Due0 = {} /\ pc[n].ph \in {"t", "end"}
    /\ IF pc[n].ph = "end"
       THEN LET pe == PassEnd(node[n], pc[n], now) IN
            /\ node' = [node EXCEPT ![n] = pe.ns]
            /\ pc' = [pc EXCEPT ![n] = IF pe.slept THEN [ph |-> "idle"] ELSE PassBegin(pe.ns, now)]
            /\ UNCHANGED <<wire, claimed, sabad>>
       ELSE LET r == Granule(node[n], pc[n]) IN
            /\ node' = [node EXCEPT ![n] = r.ns] /\ pc' = [pc EXCEPT ![n] = r.pc]
            /\ Emit(n, r.out, wire, r.ns.cas[1])
    /\ UNCHANGED <<now, started, tried>>

\* C13: the application tries every send entry point in whatever state the CA is in
TrySend(n, kind) ==
    /\ Calm /\ tried < 2
    /\ LET ca == node[n].cas[1]
           r == CASE kind = "pgn" -> TrySendPgn(ca, 0, 254, 202, 6, <<1, 2, 3>>)
                  [] kind = "msg" -> TrySendMessage(ca, 6, 65226, <<1, 2, 3>>)
                  [] kind = "req" -> TrySendRequest(ca, 0, 65226, 255)
                  [] OTHER -> TrySendRequest(ca, 0, PGN_ACLAIM, 255)
       IN /\ (ca.st # NORMAL /\ kind # "reqclaim") => r.raises        \* GuardedSend
          /\ Emit(n, r.out, wire, ca)
    /\ tried' = tried + 1
    /\ UNCHANGED <<node, pc, now, started>>

Cands == {wire[n][1].at : n \in {m \in Nodes : wire[m] # <<>>}} \cup {node[n].su : n \in {m \in Nodes : node[m].su # None}}
         \cup UNION {{t \in CaCfg[n].starts : t > now} : n \in Nodes \ started}
Tick ==
    /\ Running = {} /\ \A n \in Nodes : ~Due(n) /\ node[n].tok = 0 /\ (node[n].su = None \/ node[n].su > now)
    /\ \A n \in Nodes \ started : now \notin CaCfg[n].starts
    /\ Cands # {}
    /\ now' = CHOOSE t \in Cands : \A u \in Cands : t <= u
    /\ now' > now
    /\ UNCHANGED <<node, pc, wire, started, claimed, sabad, tried>>

Next == \/ \E n \in Nodes : StartCa(n) \/ Recv(n) \/ JobWake(n) \/ JobStep(n)
        \/ \E n \in Nodes, k \in {"pgn", "msg", "req", "reqclaim"} : TrySend(n, k)
        \/ Tick
Spec == Init /\ [][Next]_vars
Bound == now <= Horizon

(******************************* properties ********************************)
Ca(n) == node[n].cas[1]
Quiet == /\ Running = {} /\ \A n \in Nodes : wire[n] = <<>> /\ node[n].tok = 0
\* nothing can change any more: everybody started long ago and every veto window is over
LastStart == CHOOSE t \in UNION {CaCfg[n].starts : n \in Nodes} : \A u \in UNION {CaCfg[n].starts : n \in Nodes} : u <= t
Late == started = Nodes /\ now >= Horizon - 600
Claims(x) == {claimed[j].name : j \in {k \in 1..Len(claimed) : claimed[k].claim /\ claimed[k].adr = x}}
Contested == {x \in {claimed[j].adr : j \in 1..Len(claimed)} \ {NULLADDR} : Cardinality(Claims(x)) >= 2}
\* C13
SaHeld == ~sabad
\* C04
Unique == Quiet => \A a, b \in Nodes : (a # b /\ Ca(a).st = NORMAL /\ Ca(b).st = NORMAL) => Ca(a).adr # Ca(b).adr
Settles == (Quiet /\ Late) => \A n \in Nodes : Ca(n).st \in {NORMAL, CANNOT_CLAIM}
LowestKeeps == (Quiet /\ Late) => \A x \in Contested :
                   \E n \in Nodes : Ca(n).st = NORMAL /\ Ca(n).adr = x /\ \A nm \in Claims(x) : nm = Ca(n).name \/ NameLess(Ca(n).name, nm)
LoserFixed == \A n \in Nodes : Ca(n).st = CANNOT_CLAIM =>
                   ~Ca(n).aac /\ \E j \in 1..Len(claimed) : claimed[j].claim /\ claimed[j].adr = NULLADDR /\ claimed[j].name = Ca(n).name
View == <<node, pc, wire, now, started, sabad, tried, {<<claimed[j].adr, claimed[j].name, claimed[j].claim>> : j \in 1..Len(claimed)}>>
=============================================================================
