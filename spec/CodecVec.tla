------------------------------ MODULE CodecVec ------------------------------
(***************************************************************************)
(* Test vectors computed by TLC from the SAE layouts of Codec (C15, C16):  *)
(* the harness compares the implementation with these, and validates its   *)
(* own generic interpreter of the exported layout tables against them      *)
(* before using it for the whole-domain sweeps.                            *)
(***************************************************************************)
EXTENDS Codec
Bnd(w) == {0, 1, 2^w - 1, 2^w - 2, 2^(w - 1), 2^(w - 1) - 1} \cap (0..(2^w - 1))
\* every field over its boundary values and single bits, against backgrounds all-zero / all-one
OneBits(w) == {2^j : j \in 0..(w - 1)}
IdVectors ==
    LET V(w) == Bnd(w) \cup OneBits(w)
        base == {[p |-> p, edp |-> e, dp |-> d, pf |-> pf, ps |-> ps, sa |-> sa] :
                   p \in {0, 7}, e \in {0, 1}, d \in {0, 1}, pf \in {0, 255}, ps \in {0, 255}, sa \in {0, 255}}
        vary == UNION { {[b EXCEPT !.p = x] : x \in V(3)} \cup {[b EXCEPT !.pf = x] : x \in V(8) \cup {239, 240}}
                        \cup {[b EXCEPT !.ps = x] : x \in V(8)} \cup {[b EXCEPT !.sa = x] : x \in V(8)} : b \in base }
    IN {[f |-> v, id |-> MkId(v.p, v.edp, v.dp, v.pf, v.ps, v.sa)] : v \in vary}
\* NAME: one bit walking over 64 positions on three backgrounds (zeros, ones, a pattern); bytes LSB first
Bg(k) == CASE k = 0 -> [i \in 1..8 |-> 0] [] k = 1 -> [i \in 1..8 |-> 255] [] OTHER -> <<165, 90, 60, 195, 15, 240, 85, 170>>
FlipBit(nm, b) == [i \in 1..8 |-> IF i = (b \div 8) + 1
                                  THEN (IF Bits(nm[i], b % 8, 1) = 1 THEN nm[i] - 2^(b % 8) ELSE nm[i] + 2^(b % 8)) ELSE nm[i]]
NameFields(nm) == [i \in 1..Len(NameLayout) |-> [f |-> NameLayout[i].f, v |-> FieldFromBits(nm, NameLayout[i].lo, NameLayout[i].w)]]
NameVectors == {[bytes |-> FlipBit(Bg(k), b), fields |-> NameFields(FlipBit(Bg(k), b))] : k \in 0..2, b \in 0..63}
               \cup {[bytes |-> Bg(k), fields |-> NameFields(Bg(k))] : k \in 0..2}
OrderVectors == {[a |-> FlipBit(Bg(k), b), b |-> Bg(k), less |-> NameLess(FlipBit(Bg(k), b), Bg(k))] : k \in 0..2, b \in 0..63}
\* DTC / lamps / DM22 (C16)
DtcVectors == {[spn |-> s, fmi |-> f, oc |-> o, bytes |-> DtcBytes(s, f, o)] :
                 s \in {0, 1, 255, 256, 65535, 65536, 131072, 262144, 524287, 349525, 174762} \cup {2^j : j \in 0..18},
                 f \in {0, 1, 2, 4, 8, 16, 31, 21}, o \in {0, 1, 2, 64, 127, 85}}
LampStates == {"off", "on", "slow", "fast", "na"}
LampVectors == {[pl |-> a, awl |-> b, rsl |-> c, mil |-> d, bytes |-> LampBytes(a, b, c, d)] : a \in LampStates, b \in LampStates, c \in LampStates, d \in LampStates}
Dm22Vectors == {[ctl |-> c, spn |-> s, fmi |-> f, bytes |-> Dm22Bytes(c, s, f)] :
                  c \in {1, 17}, s \in {0, 1, 65535, 65536, 131072, 262144, 524287, 349525} \cup {2^j : j \in 0..18}, f \in {0, 1, 31, 21}}
=============================================================================
