SPECIFICATION Spec
CONSTANTS
  T1 = 750
  T2 = 1250
  T3 = 1250
  Th = 500
  T5 = 3000
  IdleSleep = 5000
  WakeLat = 1
  NCm = 2
  NBam = 1
  Nodes <- MC_Nodes
  NodeCfg <- MC_NodeCfg
  Msgs <- MC_Msgs
  MaxLoss = 0
  MaxVanish = 0
  Adv <- MC_Adv2
  MaxAdv = 2
  Sched = "rtc"
  Horizon = 7000
CONSTRAINT Bound
VIEW View
INVARIANT JobAlive
INVARIANT NoSpin
INVARIANT GivesUp
INVARIANT RefusalRule
INVARIANT CleanDelivered
INVARIANT PoolConsistent
PROPERTY InboundNeverTouchesPool
CHECK_DEADLOCK FALSE
