---------------------------- MODULE MC_Tp22_c08 -----------------------------
(* C08 model (FD): reception between ANY two granules of the job pass; RTS/CTS with windows 1 / 2 and a broadcast. *)
EXTENDS Tp22
Lst(a) == << [tag |-> "ecu", kind |-> "all", adr |-> -1] >>
MC_Nodes == {"A", "B"}
MC_NodeCfg == [n \in MC_Nodes |->
    CASE n = "A" -> [maxc |-> 1, bamInt |-> 10, cmdtInt |-> -1, paceMax |-> -1, cas |-> <<16>>, lst |-> Lst(16), lat |-> 1]
      [] n = "B" -> [maxc |-> 2, bamInt |-> 10, cmdtInt |-> -1, paceMax |-> -1, cas |-> <<32>>, lst |-> Lst(32), lat |-> 1]]
Pay(n, s) == [i \in 1..n |-> (s * 16 + i) % 256]
M(src, sa, pf, ps, n, s) == [src |-> src, sa |-> sa, dp |-> 0, pf |-> pf, ps |-> ps, prio |-> 6, data |-> Pay(n, s), tl |-> 0, ff |-> 3]
MC_Msgs == << M("A", 16, 208, 32, 121, 1), M("B", 32, 254, 7, 61, 2) >>
=============================================================================
