---------------------------- MODULE MC_Tp21_c10q----------------------------
(* C10 model (J1939-21): two transfers on the same pair plus one in the other direction, one lost     *)
(* frame at any emission, a peer abort at any point: send_pgn refuses exactly while a session on the  *)
(* pair exists, and every session is released.                                                        *)
EXTENDS Tp21
Lst(a) == << [tag |-> "ecu", kind |-> "all", adr |-> -1] >>
MC_Nodes == {"A", "B"}
MC_NodeCfg == [n \in MC_Nodes |->
    CASE n = "A" -> [maxc |-> 1, bamInt |-> 50, cmdtInt |-> -1, paceMax |-> -1, cas |-> <<16>>, lst |-> Lst(16), lat |-> 1]
      [] n = "B" -> [maxc |-> 2, bamInt |-> 50, cmdtInt |-> -1, paceMax |-> -1, cas |-> <<32>>, lst |-> Lst(32), lat |-> 1]]
Pay(n, s) == [i \in 1..n |-> (s * 16 + i) % 256]
M(src, sa, pf, ps, n, s) == [src |-> src, sa |-> sa, dp |-> 0, pf |-> pf, ps |-> ps, prio |-> 6, data |-> Pay(n, s)]
\* address 80 belongs to no stack: its "owner" is the environment, a peer that clears, aborts or stays silent
MC_Msgs == << M("A", 16, 208, 80, 15, 1), M("A", 16, 209, 80, 9, 2) >>
MC_Adv == { [to |-> "A", id |-> MkId(7, 0, 0, PF_TPCM, 16, 80), data |-> CmAbort(1, 53248)],
            [to |-> "A", id |-> MkId(7, 0, 0, PF_TPCM, 16, 80), data |-> CmCts(1, 1, 53248)],
            [to |-> "A", id |-> MkId(7, 0, 0, PF_TPCM, 16, 80), data |-> CmCts(2, 2, 53248)] }
=============================================================================
