----------------------------- MODULE MC_Timers ------------------------------
EXTENDS Timers
\* (callbacks that keep the job thread busy - overruns - are exercised on the real code, see checks/c12.py)
\* 1: one-shot, 2: periodic, 3: periodic that re-registers 1 on every call, 4: one-shot that removes 2 and itself
MC_Scripts == << [ret |-> FALSE, ops |-> <<>>, busy |-> 0],
                 [ret |-> TRUE,  ops |-> <<>>, busy |-> 0],
                 [ret |-> TRUE,  ops |-> << [op |-> "add", cb |-> 1, delta |-> 2] >>, busy |-> 0],
                 [ret |-> FALSE, ops |-> << [op |-> "remove", cb |-> 2], [op |-> "remove", cb |-> 4] >>, busy |-> 0] >>
=============================================================================
