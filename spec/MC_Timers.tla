----------------------------- MODULE MC_Timers ------------------------------
EXTENDS Timers
\* 1: one-shot, 2: periodic, 3: periodic that re-registers 1 on every call, 4: one-shot that removes 2 and itself
MC_Scripts == << [ret |-> FALSE, ops |-> <<>>],
                 [ret |-> TRUE,  ops |-> <<>>],
                 [ret |-> TRUE,  ops |-> << [op |-> "add", cb |-> 1, delta |-> 2] >>],
                 [ret |-> FALSE, ops |-> << [op |-> "remove", cb |-> 2], [op |-> "remove", cb |-> 4] >>] >>
=============================================================================
