SPECIFICATION Spec
CONSTANTS
  VetoT = 250000
  ClaimT = 500000
  IdleSleep = 5000000
  WakeLat = 1
INVARIANT Verdict
CHECK_DEADLOCK FALSE
