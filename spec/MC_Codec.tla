------------------------------ MODULE MC_Codec ------------------------------
(***************************************************************************)
(* Self-consistency of the SAE layout module, checked by TLC: the field    *)
(* tables are disjoint and cover the word, composing and parsing are       *)
(* inverse on boundary tuples, transport segmentation followed by          *)
(* reassembly is the identity, the multi-PG reference decoder inverts the  *)
(* packer, DTC / lamp / DM22 layouts put every field at its SAE position.  *)
(* (C03, C11, C15, C16: the oracle itself is model-checked before it       *)
(* judges the implementation.)                                             *)
(***************************************************************************)
EXTENDS Codec, TLC
VARIABLE x
Init == x = 0
Next == x < 1 /\ x' = x + 1
Spec == Init /\ [][Next]_x

BitsOf(L) == UNION {L[i].lo .. (L[i].lo + L[i].w - 1) : i \in 1..Len(L)}
Disjoint(L) == \A i, j \in 1..Len(L) : i # j => (L[i].lo .. (L[i].lo + L[i].w - 1)) \cap (L[j].lo .. (L[j].lo + L[j].w - 1)) = {}
LayoutsOk == /\ Disjoint(IdLayout) /\ BitsOf(IdLayout) = 0..28
             /\ Disjoint(NameLayout) /\ BitsOf(NameLayout) = 0..63

Bnd(w) == {0, 1, 2^w - 1, 2^w - 2, 2^(w - 1)} \cap (0..(2^w - 1))
IdRoundTrip ==
    \A p \in Bnd(3), edp \in {0, 1}, dp \in {0, 1}, pf \in Bnd(8) \cup {239, 240}, ps \in Bnd(8), sa \in Bnd(8) :
        LET id == MkId(p, edp, dp, pf, ps, sa) IN
        /\ IdPrio(id) = p /\ IdEdp(id) = edp /\ IdDp(id) = dp /\ IdPf(id) = pf /\ IdPs(id) = ps /\ IdSa(id) = sa
        /\ id < 2^29
        /\ \A i \in 1..Len(IdLayout) : Bits(id, IdLayout[i].lo, IdLayout[i].w) =
              (CASE IdLayout[i].f = "prio" -> p [] IdLayout[i].f = "edp" -> edp [] IdLayout[i].f = "dp" -> dp
                 [] IdLayout[i].f = "pf" -> pf [] IdLayout[i].f = "ps" -> ps [] OTHER -> sa)
PgnRule == /\ PgnOf(0, 239, 77) = 239 * 256 /\ PgnOf(1, 240, 77) = 65536 + 240 * 256 + 77
           /\ IsPdu1(239) /\ IsPdu2(240) /\ ~IsPdu1(240) /\ ~IsPdu2(239)

\* transport: segmentation then reassembly is the identity, padding is 0xFF, sequence numbers 1-based
Pay(n) == [i \in 1..n |-> (i * 37) % 256]
RECURSIVE Cat21(_, _, _)
Cat21(p, k, n) == IF k > n THEN <<>> ELSE Tail(Dt21(p, k)) \o Cat21(p, k + 1, n)
Seg21Ok == \A n \in {9, 13, 14, 15, 21, 22, 100, 147} :
    LET p == Pay(n)  np == NumPackets21(n)  all == Cat21(p, 1, np) IN
    /\ np = (IF n % 7 = 0 THEN n \div 7 ELSE n \div 7 + 1)
    /\ Len(all) = 7 * np /\ SubSeq(all, 1, n) = p /\ \A j \in (n + 1)..Len(all) : all[j] = 255
    /\ \A k \in 1..np : Dt21(p, k)[1] = k /\ Len(Dt21(p, k)) = 8
RECURSIVE Cat22(_, _, _)
Cat22(p, k, n) == IF k > n THEN <<>> ELSE SubSeq(Dt22(p, 5, k), 5, Len(Dt22(p, 5, k))) \o Cat22(p, k + 1, n)
Seg22Ok == \A n \in {61, 119, 120, 121, 125, 180, 1000} :
    LET p == Pay(n)  ns == NumSegments22(n)  all == Cat22(p, 1, ns) IN
    /\ ns = (IF n % 60 = 0 THEN n \div 60 ELSE n \div 60 + 1)
    /\ SubSeq(all, 1, n) = p /\ \A j \in (n + 1)..Len(all) : all[j] = 255
    /\ \A k \in 1..ns : /\ Len(Dt22(p, 5, k)) \in FdLengths /\ Len(Dt22(p, 5, k)) <= 64
                        /\ Dt22(p, 5, k)[1] = 80 /\ Rd3(Dt22(p, 5, k), 2) = k
CmOk == /\ \A s \in {9, 255, 256, 1785} : \A pg \in {0, 65279, 131071} :
             LET d == CmRts(s, NumPackets21(s), 3, pg) IN Len(d) = 8 /\ d[1] = 16 /\ Rd2(d, 2) = s /\ d[4] = NumPackets21(s) /\ d[5] = 3 /\ Rd3(d, 6) = pg
        /\ CmCts(5, 9, 65279) = <<17, 5, 9, 255, 255, 255, 254, 0>>
        /\ CmEoma(20, 3, 65200) = <<19, 20, 0, 3, 255, 176, 254, 0>>
        /\ CmBam(20, 3, 65200) = <<32, 20, 0, 3, 255, 176, 254, 0>>
        /\ CmAbort(3, 57088) = <<255, 3, 255, 255, 255, 0, 223, 0>>
        /\ LET d == FdCm(FC_RTS, 7, 70000, 1167, 9, 0, 131071) IN
              Len(d) = 12 /\ d[1] = 7 * 16 /\ Rd3(d, 2) = 70000 /\ Rd3(d, 5) = 1167 /\ d[8] = 9 /\ Rd3(d, 10) = 131071
FdLenOk == \A n \in 0..64 : FdLen(n) \in FdLengths /\ FdLen(n) >= n /\ \A m \in FdLengths : m >= n => FdLen(n) <= m

\* multi-PG: the reference decoder inverts the packing for every pair of lengths that fits a frame
MpgOk == \A a \in {1, 2, 8, 27, 28, 56, 60}, b \in {1, 7, 28} :
    LET g1 == Pay(a)  g2 == [i \in 1..b |-> (i * 11) % 256]
        one == CpgHeader(2, 0, 65279, a) \o g1
        two == one \o CpgHeader(2, 0, 53248, b) \o g2
        pad(d) == d \o [j \in 1..(FdLen(Len(d)) - Len(d)) |-> IF j <= 3 THEN 0 ELSE 170]
    IN /\ LET r == MpgDecode(pad(one)) IN Len(r) = 1 /\ r[1].cpgn = 65279 /\ r[1].data = g1 /\ ~r[1].short
       /\ (Len(two) <= 64 =>
             LET r == MpgDecode(pad(two)) IN Len(r) = 2 /\ r[1].data = g1 /\ r[2].cpgn = 53248 /\ r[2].data = g2)

\* J1939-73
DtcOk == \A spn \in {0, 1, 65535, 65536, 262144, 524287, 349525}, fmi \in {0, 1, 31, 21}, oc \in {0, 1, 127, 85} :
    LET b == DtcBytes(spn, fmi, oc) IN
    /\ DtcSpn(b) = spn /\ DtcFmi(b) = fmi /\ DtcOc(b) = oc /\ DtcCm(b) = 0
    /\ b[1] = spn % 256 /\ b[2] = (spn \div 256) % 256 /\ b[3] \div 32 = spn \div 65536 /\ b[3] % 32 = fmi /\ b[4] = oc
    /\ Dm22Bytes(17, spn, fmi)[8] = b[3] /\ Dm22Bytes(17, spn, fmi)[6] = b[1] /\ Dm22Bytes(17, spn, fmi)[7] = b[2]
LampOk == /\ LampBytes("on", "off", "off", "off") = <<1, 255>>
          /\ LampBytes("off", "off", "off", "slow") = <<64, 63>>
          /\ LampBytes("na", "na", "na", "na") = <<255, 255>>
          /\ LampBytes("off", "fast", "off", "off") = <<4, 247>>
NameOk == LET nm == <<1, 0, 32, 0, 8, 1, 2, 129>> IN   \* identity 1, manufacturer 1, function_instance 1, function 1, vehicle system 1, ig 0, vsi 1, aac 1
          /\ NameField(nm, "identity_number") = 1 /\ NameField(nm, "manufacturer_code") = 1
          /\ NameField(nm, "ecu_instance") = 0 /\ NameField(nm, "function_instance") = 1
          /\ NameField(nm, "function") = 1 /\ NameField(nm, "reserved_bit") = 0
          /\ NameField(nm, "vehicle_system") = 1 /\ NameField(nm, "vehicle_system_instance") = 1
          /\ NameField(nm, "industry_group") = 0 /\ NameField(nm, "arbitrary_address_capable") = 1
          /\ NameLess(<<255, 255, 255, 255, 255, 255, 255, 0>>, <<0, 0, 0, 0, 0, 0, 0, 1>>)
          /\ ~NameLess(nm, nm) /\ NameLess(<<0, 0, 0, 0, 0, 0, 0, 1>>, <<1, 0, 0, 0, 0, 0, 0, 1>>)
AllOk == LayoutsOk /\ IdRoundTrip /\ PgnRule /\ Seg21Ok /\ Seg22Ok /\ CmOk /\ FdLenOk /\ MpgOk /\ DtcOk /\ LampOk /\ NameOk
=============================================================================
