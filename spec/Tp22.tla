------------------------------- MODULE Tp22 ---------------------------------
(***************************************************************************)
(* Model of 2..4 J1939-22 (FD) stacks on one bus: Tp22Core's handlers lifted *)
(* to actions, a bus with per-receiver latency (0 = re-entrant delivery),  *)
(* frame loss, vanishing peers, hostile frames, and the job threads with   *)
(* wake tokens and sleep deadlines.  Time is an integer clock that only    *)
(* the Tick action advances, to the next instant at which something is     *)
(* due (urgent semantics).                                                 *)
(*                                                                         *)
(* Scheduling discipline (constant Sched):                                 *)
(*   "rtc"     a job pass, once started, runs to its end; received frames  *)
(*             are handled between passes - except frames for a receiver   *)
(*             with latency 0, which are handled at once, inside the       *)
(*             sender's step sequence (re-entrant reply).                  *)
(*   "preempt" reception on a stack may happen between any two granules of *)
(*             that stack's own job pass (C08).                            *)
(***************************************************************************)
EXTENDS Tp22Core, Mon22

CONSTANTS Nodes,        \* set of node names
          NodeCfg,      \* [Nodes -> [maxc, bamInt, cmdtInt, paceMax, cas, lst, lat]]
          Msgs,         \* sequence of messages [src, sa, dp, pf, ps, prio, data]
          MaxLoss,      \* number of frames that may be lost
          MaxVanish,    \* number of peers that may fall silent
          Adv,          \* hostile frames [to, id, data]
          MaxAdv,       \* number of hostile frames injected
          Sched,        \* "rtc" | "preempt"
          Horizon       \* clock bound (state constraint)

VARIABLES node, pc, wire, now, sent, alive, lost, advn, dm, bm, monbad, busbad, dead, spin, ret, tainted, nabort
vars == <<node, pc, wire, now, sent, alive, lost, advn, dm, bm, monbad, busbad, dead, spin, ret, tainted, nabort>>

Init ==
    /\ node = [n \in Nodes |-> [InitNode EXCEPT !.su = IdleSleep + WakeLat]]
    /\ pc = [n \in Nodes |-> PcIdle]
    /\ wire = [n \in Nodes |-> <<>>]
    /\ now = 0
    /\ sent = {}
    /\ alive = Nodes
    /\ lost = 0 /\ advn = 0
    /\ dm = DmInit22 /\ bm = Bm22Init
    /\ monbad = {} /\ busbad = {} /\ dead = {} /\ spin = {}
    /\ ret = <<>>
    /\ tainted = {} /\ nabort = 0

Running == {n \in Nodes : pc[n].ph # "idle"}
Due(n) == n \in alive /\ wire[n] # <<>> /\ Head(wire[n]).at <= now
Due0 == {n \in Nodes : Due(n) /\ NodeCfg[n].lat = 0}

(* put the outputs of one handler step of node n on the bus / into the monitors *)
RECURSIVE EmitAll(_, _, _, _, _)
EmitAll(acc, n, outs, i, drops) ==
    IF i > Len(outs) THEN acc
    ELSE LET o == outs[i] IN
         IF o.k = "tx"
         THEN LET e == [ev |-> "tx", id |-> o.id, data |-> o.data, t |-> now, fd |-> o.fd, ext |-> (IF "ext" \in DOMAIN o THEN o.ext ELSE TRUE)]
                  b2 == Bm22Step(acc.bm, acc.dm.acc, NodeCfg, n, e)
                  w2 == IF i \in drops THEN acc.wire
                        ELSE [m \in Nodes |-> IF m # n /\ m \in alive /\ e.ext
                                              THEN Append(acc.wire[m], [id |-> o.id, data |-> o.data, at |-> now + NodeCfg[m].lat])
                                              ELSE acc.wire[m]]
              IN EmitAll([acc EXCEPT !.wire = w2, !.bm = b2.bm, !.bbad = @ \cup b2.bad], n, outs, i + 1, drops)
         ELSE LET d2 == DmDeliver(acc.dm, NodeCfg, n, o)
              IN EmitAll([acc EXCEPT !.dm = d2.dm, !.bad = @ \cup d2.bad], n, outs, i + 1, drops)

TxIdx(outs) == {i \in 1..Len(outs) : outs[i].k = "tx"}
EmitB(n, outs, w0, dm0, taint0, bm0) ==
    \E drops \in SUBSET TxIdx(outs) :
       /\ Cardinality(drops) + lost <= MaxLoss
       /\ LET acc == EmitAll([wire |-> w0, dm |-> dm0, bm |-> bm0, bad |-> {}, bbad |-> {}], n, outs, 1, drops) IN
          /\ wire' = acc.wire /\ dm' = acc.dm /\ bm' = acc.bm
          /\ monbad' = monbad \cup acc.bad
          /\ busbad' = busbad \cup acc.bbad
          /\ lost' = lost + Cardinality(drops)
          \* ghosts: messages that a fault may have hit; number of connection aborts put on the bus
          /\ tainted' = IF drops = {} THEN taint0 ELSE taint0 \cup (1..Len(dm0.acc))
          /\ nabort' = nabort + Cardinality({i \in TxIdx(outs) : IdPf(outs[i].id) = PF_FDCM /\ Len(outs[i].data) >= 1 /\ outs[i].data[1] % 16 = FC_ABORT})

EmitT(n, outs, w0, dm0, taint0) == EmitB(n, outs, w0, dm0, taint0, bm)
Emit(n, outs, w0, dm0) == EmitT(n, outs, w0, dm0, tainted)

Calm == Running = {} /\ Due0 = {}
SettledNow == /\ Running = {} /\ \A n \in alive : wire[n] = <<>> /\ node[n].tok = 0 /\ node[n].snd = <<>> /\ node[n].rcv = <<>> /\ node[n].mpg = <<>>

(* the application submits message i *)
Submit(i) ==
    /\ Calm /\ i \notin sent /\ Msgs[i].src \in alive
    /\ LET m == Msgs[i]   n == m.src
           a == [dp |-> m.dp, pf |-> m.pf, ps |-> m.ps, prio |-> m.prio, sa |-> m.sa, data |-> m.data, tl |-> m.tl, ff |-> m.ff, t |-> now]
           r == SendPgn(node[n], NodeCfg[n], a, now)
       IN /\ node' = [node EXCEPT ![n] = r.ns]
          /\ ret' = Append(ret, [i |-> i, ok |-> r.ret, busy |-> (FreeIdx(IF m.ps = GLOBAL \/ IsPdu2(m.pf) THEN node[n].poolBam ELSE node[n].poolCm) = 0),
                                 same |-> (r.ns = node[n] /\ r.out = <<>>)])
          \* a transfer started while the stacks are still cleaning up after a fault may be hit by it too
          /\ EmitT(n, r.out, wire, IF r.ret THEN DmAccept(dm, n, a) ELSE DmRefuse(dm),
                   IF r.ret /\ (lost > 0 \/ alive # Nodes \/ advn > 0) /\ ~SettledNow THEN tainted \cup {Len(dm.acc) + 1} ELSE tainted)
    /\ sent' = sent \cup {i}
    /\ UNCHANGED <<pc, now, alive, advn, dead, spin>>

(* the receive thread of node n handles the next frame from the bus *)
Recv(n) ==
    /\ Due(n)
    /\ IF Due0 # {} THEN n \in Due0
       ELSE (Sched = "preempt" \/ Running = {})
    /\ LET f == Head(wire[n])
           r == Notify(node[n], NodeCfg[n], f.id, f.data, now)
       IN /\ ~r.unmodeled
          /\ node' = [node EXCEPT ![n] = r.ns]
          /\ Emit(n, r.out, [wire EXCEPT ![n] = Tail(@)], dm)
    /\ UNCHANGED <<pc, now, sent, alive, advn, dead, spin, ret>>

(* a hostile / malformed frame arrives at node f.to *)
Hostile(f) ==
    /\ Calm /\ advn < MaxAdv /\ f.to \in alive
    /\ LET r == Notify(node[f.to], NodeCfg[f.to], f.id, f.data, now)
       IN /\ ~r.unmodeled
          /\ node' = [node EXCEPT ![f.to] = r.ns]
          \* the hostile frame is a frame on the bus too (sent by somebody else than the stacks under test)
          /\ EmitB(f.to, r.out, wire, dm, tainted \cup (1..Len(dm.acc)),
                   Bm22Step(bm, dm.acc, NodeCfg, f.to, [ev |-> "ptx", id |-> f.id, data |-> f.data, t |-> now, fd |-> FALSE, ext |-> TRUE]).bm)
    /\ advn' = advn + 1
    /\ UNCHANGED <<pc, now, sent, alive, dead, spin, ret>>

(* the job thread of n wakes up: by a token or because its sleep is over *)
JobWake(n) ==
    /\ Due0 = {} /\ n \in alive /\ n \notin dead /\ n \notin spin
    /\ pc[n].ph = "idle"
    /\ (Sched = "preempt" \/ Running = {})
    /\ \/ /\ node[n].tok > 0
          /\ node' = [node EXCEPT ![n].tok = @ - 1, ![n].su = None]
       \/ /\ node[n].tok = 0 /\ node[n].su # None /\ node[n].su <= now
          /\ node' = [node EXCEPT ![n].su = None]
    /\ pc' = [pc EXCEPT ![n] = PassBegin(node[n], now)]
    /\ UNCHANGED <<wire, now, sent, alive, lost, advn, dm, bm, monbad, busbad, dead, spin, ret, tainted, nabort>>

(* one granule of the running job pass of n *)
JobStep(n) ==
    /\ Due0 = {} /\ n \in alive /\ n \notin dead /\ n \notin spin
    /\ pc[n].ph \notin {"idle"}
    /\ IF pc[n].ph = "end"
       THEN LET pe == PassEnd(node[n], pc[n], now) IN
            /\ node' = [node EXCEPT ![n] = pe.ns]
            /\ pc' = [pc EXCEPT ![n] = IF pe.pc.ph = "again" THEN PassBegin(pe.ns, now) ELSE pe.pc]
            /\ spin' = IF pe.spin THEN spin \cup {n} ELSE spin
            /\ UNCHANGED <<wire, dm, bm, monbad, busbad, lost, dead, tainted, nabort>>
       ELSE LET r == Granule(node[n], NodeCfg[n], pc[n], now) IN
            IF r.dead
            THEN /\ dead' = dead \cup {n}
                 /\ pc' = [pc EXCEPT ![n] = PcIdle]
                 /\ UNCHANGED <<node, wire, dm, bm, monbad, busbad, lost, spin, tainted, nabort>>
            ELSE /\ node' = [node EXCEPT ![n] = r.ns]
                 /\ pc' = [pc EXCEPT ![n] = r.pc]
                 /\ Emit(n, r.out, wire, dm)
                 /\ UNCHANGED <<dead, spin>>
    /\ UNCHANGED <<now, sent, alive, advn, ret>>

(* a peer falls silent for good *)
Vanish(n) ==
    /\ Calm /\ n \in alive /\ Cardinality(Nodes \ alive) < MaxVanish
    /\ alive' = alive \ {n}
    /\ wire' = [wire EXCEPT ![n] = <<>>]
    /\ tainted' = tainted \cup (1..Len(dm.acc))
    /\ UNCHANGED <<node, pc, now, sent, lost, advn, dm, bm, monbad, busbad, dead, spin, ret, nabort>>

(* time passes to the next instant at which something is due *)
Cands == {wire[n][1].at : n \in {m \in alive : wire[m] # <<>>}}
         \cup {node[n].su : n \in {m \in alive \ (dead \cup spin) : node[m].su # None}}
Tick ==
    /\ Running = {}
    /\ \A n \in Nodes : ~Due(n)
    /\ \A n \in alive \ (dead \cup spin) : node[n].tok = 0 /\ (node[n].su = None \/ node[n].su > now)
    /\ Cands # {}
    /\ now' = CHOOSE t \in Cands : \A u \in Cands : t <= u
    /\ now' > now
    /\ UNCHANGED <<node, pc, wire, sent, alive, lost, advn, dm, bm, monbad, busbad, dead, spin, ret, tainted, nabort>>

Next ==
    \/ \E i \in 1..Len(Msgs) : Submit(i)
    \/ \E n \in Nodes : Recv(n) \/ JobWake(n) \/ JobStep(n) \/ Vanish(n)
    \/ \E f \in Adv : Hostile(f)
    \/ Tick

Spec == Init /\ [][Next]_vars
FairSpec == Spec /\ WF_vars(Next)

Bound == now <= Horizon

(******************************* properties ********************************)
\* monitors: delivery (C01/C06/C10) and bus (C03/C09) clauses never fire
MonOk == monbad = {}
\* bus clauses (C03/C09): judged on fault-free behaviours (a forged, stale or lost CTS/abort makes
\* "cleared by the responder" ambiguous on any real bus; C09 does not quantify over faults)
BusOk == (advn = 0 /\ lost = 0 /\ alive = Nodes) => busbad = {}
\* C07/C08: the background thread never dies and never busy-spins
JobAlive == dead = {}
NoSpin == spin = {}

Sessions(n) == {node[n].snd[i] : i \in 1..Len(node[n].snd)} \cup {node[n].rcv[i] : i \in 1..Len(node[n].rcv)}
\* C06/C07: a session is given up within the standard's longest time-out after its last activity
Tmax == IF T2 > T3 THEN T2 ELSE T3
GivesUp == \A n \in alive \ (dead \cup spin) : \A b \in Sessions(n) :
              now - b.act <= (IF "st" \in DOMAIN b /\ b.st = WAITING_EOMA THEN T5 ELSE Tmax) + WakeLat
\* deadlines are never armed further ahead than the standard's time-outs
Armed == \A n \in alive : \A b \in Sessions(n) : b.dl - now <= (IF "st" \in DOMAIN b /\ b.st = WAITING_EOMA THEN T5 ELSE Tmax)

Settled == SettledNow
AllSent == sent = 1..Len(Msgs)
Faultless == lost = 0 /\ alive = Nodes /\ advn = 0
\* C01: without faults every accepted message has reached every addressed listener once things settle
Tr0 == [cfg |-> NodeCfg, expect |-> [all |-> TRUE, idle |-> TRUE]]
DeliveredAll == (Settled /\ Faultless) => DmFinal(dm, Tr0) = {}
\* C06: a message that no fault can have hit (accepted after the last loss) is delivered everywhere
CleanDelivered == (Settled /\ alive = Nodes) =>
                     \A i \in 1..Len(dm.acc) : Undelivered(dm, Tr0, i) => i \in tainted
\* C06: when the job thread gives a connection-mode session up (time-out while waiting for a CTS or
\* for data packets) a connection abort goes on the bus in the same step
CmGone(n) == \/ \E i \in 1..Len(node[n].rcv) : node[n].rcv[i].da # GLOBAL /\ node[n].rcv[i].border # None /\ ~Has(node'[n].rcv, node[n].rcv[i].key)
             \/ \E i \in 1..Len(node[n].snd) : /\ node[n].snd[i].da # GLOBAL /\ node[n].snd[i].st = WAITING_CTS
                                                /\ ~Has(node'[n].snd, node[n].snd[i].key)
AbortOnGiveUp == [][\A n \in Nodes : (pc[n].ph \notin {"idle", "end"} /\ pc'[n] # pc[n] /\ CmGone(n)) => nabort' > nabort]_vars
\* C10: send_pgn refuses exactly when a session on that pair exists
RefusalRule == \A k \in 1..Len(ret) : (Len(Msgs[ret[k].i].data) > 60) =>
                   /\ ret[k].ok = ~ret[k].busy
                   /\ ~ret[k].ok => ret[k].same          \* a refused call emits nothing and changes nothing
\* C02/C10: a session number is taken exactly while a send session of this stack uses it
PoolConsistent == \A n \in Nodes :
    /\ \A i \in 1..NCm : ~node[n].poolCm[i] <=> \E j \in 1..Len(node[n].snd) : node[n].snd[j].da # GLOBAL /\ node[n].snd[j].sess = i - 1
    /\ \A i \in 1..NBam : ~node[n].poolBam[i] <=> \E j \in 1..Len(node[n].snd) : node[n].snd[j].da = GLOBAL /\ node[n].snd[j].sess = i - 1
\* C10: handling a received frame never takes or releases a session number
Pools(n) == <<node[n].poolCm, node[n].poolBam>>
InboundNeverTouchesPool == [][\A n \in Nodes : (pc'[n] = pc[n] /\ sent' = sent) => Pools(n)' = Pools(n)]_vars
\* liveness (fair specification, no state constraint): the system settles
EventuallySettled == <>[](Settled \/ dead # {} \/ spin # {})

\* hide history variables from the state fingerprint where they do not influence behaviour
View == <<node, pc, wire, now, sent, alive, lost, advn, dm, bm, monbad, busbad, dead, spin, tainted>>
=============================================================================
