------------------------------ MODULE Dispatch ------------------------------
(***************************************************************************)
(* C05 / C14 as a finite function check: every (configuration, frame) pair *)
(* is one initial state; the reaction CaCore!Notify computes for it must   *)
(* satisfy the addressing rules stated here independently (set             *)
(* comprehensions over the CAs and listeners).                             *)
(* Configuration: three CAs, each in any claim state on address 16 or 17,  *)
(* an unfiltered ECU listener, one CA listener per CA, optionally an ECU   *)
(* listener bound to address 48.  Frame: single PDU1 / PDU2 frame, request *)
(* (ordinary PGN / address-claim PGN) to an owned, unowned (119), null     *)
(* (254) or the global address, from an ordinary or the null address.      *)
(***************************************************************************)
EXTENDS CaCore
VARIABLES sts, adrs, intl, fr
vars == <<sts, adrs, intl, fr>>

Nm(k) == <<k, 0, 0, 0, 0, 0, 0, 0>>
CaTag == <<"ca1", "ca2", "ca3">>
RqTag == <<"rq1", "rq2", "rq3">>
Frames == {[pf |-> pf, da |-> da, sa |-> sa, d |-> d] :
             pf \in {208, 254, PF_REQ}, da \in {16, 17, 48, 119, 254, 255}, sa \in {33, 254},
             d \in {<<1, 2, 3>>, Pgn3(65226), Pgn3(PGN_ACLAIM)}}
Init == /\ sts \in [1..3 -> {NONE, WAIT_VETO, NORMAL, CANNOT_CLAIM}]
        /\ adrs \in [1..3 -> {16, 17}]
        /\ intl \in BOOLEAN
        /\ fr \in {f \in Frames : (f.pf = PF_REQ) <=> (f.d # <<1, 2, 3>>)}
Next == UNCHANGED vars
Spec == Init /\ [][Next]_vars

MkCa(i) == [st |-> sts[i], pref |-> adrs[i], ann |-> adrs[i],
            adr |-> IF sts[i] = NORMAL THEN adrs[i] ELSE IF sts[i] = CANNOT_CLAIM THEN NoAdr ELSE NULLADDR,
            name |-> Nm(i), aac |-> FALSE, started |-> TRUE]
Ns == [cas |-> [i \in 1..3 |-> MkCa(i)], tms |-> <<>>, tok |-> 0, su |-> None]
Lst == << [tag |-> "ecu", kind |-> "all", adr |-> -1, ca |-> 0] >>
       \o [i \in 1..3 |-> [tag |-> CaTag[i], kind |-> "ca", adr |-> -1, ca |-> i]]
       \o (IF intl THEN << [tag |-> "i48", kind |-> "int", adr |-> 48, ca |-> 0] >> ELSE <<>>)
Cfg == [lst |-> Lst, reqtag |-> [i \in 1..3 |-> RqTag[i]]]
Id == MkId(6, 0, 0, fr.pf, fr.da, fr.sa)
Res == Notify(Ns, Cfg, Id, fr.d)
Out == Res.out
Cbs == {Out[j].tag : j \in {k \in 1..Len(Out) : Out[k].k = "cb"}}
NCb(tag) == Cardinality({k \in 1..Len(Out) : Out[k].k = "cb" /\ Out[k].tag = tag})
Reqs == {Out[j] : j \in {k \in 1..Len(Out) : Out[k].k = "req"}}
Txs == {Out[j] : j \in {k \in 1..Len(Out) : Out[k].k = "tx"}}

\* --- the rules, stated independently of Notify -----------------------------------------------
Operational(i) == sts[i] = NORMAL
Owned == {adrs[i] : i \in {j \in 1..3 : Operational(j)}} \cup (IF intl THEN {48} ELSE {})
Broadcast == fr.pf >= 240 \/ fr.da = 255
Plain == fr.pf # PF_REQ                     \* an ordinary parameter group (not a request)
\* destination-specific: only the listeners bound to that address, plus the unfiltered ones - if anybody owns it
Expected == IF Broadcast THEN {Lst[j].tag : j \in 1..Len(Lst)}
            ELSE IF fr.da \notin Owned THEN {}
            ELSE {"ecu"} \cup {CaTag[i] : i \in {j \in 1..3 : Operational(j) /\ adrs[j] = fr.da}}
                 \cup (IF intl /\ fr.da = 48 THEN {"i48"} ELSE {})
OnlyAddressed == Plain => (Cbs = Expected /\ \A t \in Cbs : NCb(t) = 1)
NoAddressNoDelivery == \A i \in 1..3 : (~Operational(i) /\ ~Broadcast) => CaTag[i] \notin Cbs
ForeignIsInert == (~Broadcast /\ fr.da \notin Owned) => (Out = <<>> /\ Res.ns = Ns /\ ~Res.exc)
\* C14: requests
Responders == {i \in 1..3 : Operational(i) /\ (fr.da = 255 \/ adrs[i] = fr.da)}
ReqPgn == Rd3(fr.d, 1)
ExactlyAddressed == (fr.pf = PF_REQ /\ ReqPgn # PGN_ACLAIM) =>
    /\ Reqs = {[k |-> "req", tag |-> RqTag[i], sa |-> fr.sa, dest |-> fr.da, pgn |-> ReqPgn] : i \in Responders}
    /\ Cardinality({k \in 1..Len(Out) : Out[k].k = "req"}) = Cardinality(Responders)
    /\ Txs = {} /\ Cbs = {}
ClaimAnswered == (fr.pf = PF_REQ /\ ReqPgn = PGN_ACLAIM) =>
    /\ Txs = {[k |-> "tx", id |-> MkId(6, 0, 0, PF_ACLAIM, 255, adrs[i]), data |-> Nm(i), fd |-> FALSE] : i \in Responders}
    /\ Cardinality({k \in 1..Len(Out) : Out[k].k = "tx"}) = Cardinality(Responders)
    /\ Reqs = {} /\ Cbs = {}
NoStateChange == Res.ns = Ns        \* neither a data frame nor a request changes any CA
=============================================================================
