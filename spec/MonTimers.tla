----------------------------- MODULE MonTimers ------------------------------
(***************************************************************************)
(* Property monitor for timers (C12), independent of the list model of     *)
(* TimersCore: per registration [cb, delta, t0, fired, alive].             *)
(***************************************************************************)
EXTENDS Naturals, Integers, Sequences
RECURSIVE RegOps(_, _, _)
RegOps(rg, ops, t) ==
    IF ops = <<>> THEN rg
    ELSE LET o == Head(ops) IN
         RegOps(IF o.op = "add" THEN Append(rg, [cb |-> o.cb, delta |-> o.delta, t0 |-> t, fired |-> 0, alive |-> TRUE])
                ELSE [i \in 1..Len(rg) |-> IF rg[i].cb = o.cb THEN [rg[i] EXCEPT !.alive = FALSE] ELSE rg[i]],
                Tail(ops), t)
\* a firing of registration rid at time t.  Periodic registrations live on the grid t0 + k*delta: the k-th
\* period may be served late when the job thread was busy (slack), periods may even be skipped then, but the
\* phase is never lost (no drift), no period is served twice, and nothing fires before t0 + delta.
RegFireS(Script(_), rg, rid, t, slack, lat) ==
    IF rid > Len(rg) THEN [rg |-> rg, bad |-> {"callback of an unknown registration"}]
    ELSE LET r == rg[rid]
             k == (t - r.t0) \div r.delta
             phase == (t - r.t0) % r.delta
         IN
         IF ~r.alive THEN [rg |-> rg, bad |-> {"callback called after remove_timer() returned or after it returned False"}]
         ELSE IF k < 1 \/ k <= r.fired THEN [rg |-> rg, bad |-> {"callback called early"}]
         ELSE IF phase > lat + slack THEN [rg |-> rg, bad |-> {"callback called late (delayed, suppressed or drifting)"}]
         ELSE IF k > r.fired + 1 /\ (k - r.fired - 1) * r.delta > slack THEN [rg |-> rg, bad |-> {"periods skipped (timer suppressed)"}]
         ELSE LET sc == Script(r.cb)
                  rg1 == [rg EXCEPT ![rid].fired = k, ![rid].alive = sc.ret]
                  rg2 == RegOps(rg1, sc.ops, t + sc.busy)
              IN [rg |-> IF sc.ret THEN rg2 ELSE [rg2 EXCEPT ![rid].alive = FALSE], bad |-> {}]
OverdueS(rg, t, slack, lat) == \E i \in 1..Len(rg) : rg[i].alive /\ rg[i].t0 + (rg[i].fired + 1) * rg[i].delta + lat + slack < t

=============================================================================
