----------------------------- MODULE MonTimers ------------------------------
(***************************************************************************)
(* Property monitor for timers (C12), independent of the list model of     *)
(* TimersCore: per registration [cb, delta, t0, fired, alive].             *)
(***************************************************************************)
EXTENDS Naturals, Integers, Sequences
RECURSIVE RegOps(_, _, _)
RegOps(rg, ops, t) ==
    IF ops = <<>> THEN rg
    ELSE LET o == Head(ops) IN
         RegOps(IF o.op = "add" THEN Append(rg, [cb |-> o.cb, delta |-> o.delta, t0 |-> t, fired |-> 0, alive |-> TRUE])
                ELSE [i \in 1..Len(rg) |-> IF rg[i].cb = o.cb THEN [rg[i] EXCEPT !.alive = FALSE] ELSE rg[i]],
                Tail(ops), t)
RegFireS(Script(_), rg, rid, t, slack, lat) ==
    IF rid > Len(rg) THEN [rg |-> rg, bad |-> {"callback of an unknown registration"}]
    ELSE LET r == rg[rid]   due == r.t0 + (r.fired + 1) * r.delta IN
         IF ~r.alive THEN [rg |-> rg, bad |-> {"callback called after remove_timer() returned or after it returned False"}]
         ELSE IF t < due THEN [rg |-> rg, bad |-> {"callback called early"}]
         ELSE IF t > due + lat + slack THEN [rg |-> rg, bad |-> {"callback called late (delayed, suppressed or drifting)"}]
         ELSE LET sc == Script(r.cb)
                  rg1 == [rg EXCEPT ![rid].fired = @ + 1, ![rid].alive = sc.ret]
                  rg2 == RegOps(rg1, sc.ops, t)
              IN [rg |-> IF sc.ret THEN rg2 ELSE [rg2 EXCEPT ![rid].alive = FALSE], bad |-> {}]
OverdueS(rg, t, slack, lat) == \E i \in 1..Len(rg) : rg[i].alive /\ rg[i].t0 + (rg[i].fired + 1) * rg[i].delta + lat + slack < t

=============================================================================
