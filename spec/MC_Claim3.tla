----------------------------- MODULE MC_Claim3 ------------------------------
(* three CAs, NAME order A < B < C, all prefer 200 (veto range); A fixed, B and C arbitrary-address-capable;   *)
(* B handles frames re-entrantly; starts before / inside / after the others' veto window, two claim delays.   *)
EXTENDS Claim
Nm(k) == <<k, 0, 0, 0, 0, 0, 0, 0>>
NmA(k) == <<k, 0, 0, 0, 0, 0, 0, 128>>
MC_Nodes == {"A", "B", "C"}
MC_CaCfg == [n \in MC_Nodes |->
   CASE n = "A" -> [name |-> Nm(1),  pref |-> 200, aac |-> FALSE, lat |-> 1, starts |-> {0, 100, 400}, delays |-> {0, 500}]
     [] n = "B" -> [name |-> NmA(2), pref |-> 200, aac |-> TRUE,  lat |-> 0, starts |-> {0, 300}, delays |-> {0, 100}]
     [] n = "C" -> [name |-> NmA(3), pref |-> 200, aac |-> TRUE,  lat |-> 1, starts |-> {0, 200}, delays |-> {0}]]
=============================================================================
