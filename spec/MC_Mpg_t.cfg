SPECIFICATION Spec
CONSTANTS
  T1 = 750
  T2 = 1250
  T3 = 1250
  Th = 500
  T5 = 3000
  IdleSleep = 5000
  WakeLat = 1
  NCm = 2
  NBam = 1
  Lens = {1,2,3,4,5,7,8,9,11,12,13,16,19,20,21,23,24,25,26,27,28,29,30,31,32,33,40,44,48,52,54,55,56,57,58,59,60}
INVARIANT FrameLegal
INVARIANT FillExact
INVARIANT EachOnce
INVARIANT StackAgrees
CHECK_DEADLOCK FALSE
