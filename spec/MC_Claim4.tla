----------------------------- MODULE MC_Claim4 ------------------------------
(* four CAs: two arbitrary ones with names below and above a fixed one, adjacent preferred addresses in the    *)
(* veto range, one late starter; mixed latencies.                                                             *)
EXTENDS Claim
MC_Nodes == {"A", "B", "C", "D"}
MC_CaCfg == [n \in MC_Nodes |->
   CASE n = "A" -> [name |-> <<1, 0, 0, 0, 0, 0, 0, 128>>, pref |-> 200, aac |-> TRUE,  lat |-> 1, starts |-> {0}, delays |-> {0, 500}]
     [] n = "B" -> [name |-> <<2, 0, 0, 0, 0, 0, 0, 128>>, pref |-> 200, aac |-> TRUE,  lat |-> 0, starts |-> {0, 300}, delays |-> {0}]
     [] n = "C" -> [name |-> <<3, 0, 0, 0, 0, 0, 0, 0>>,   pref |-> 201, aac |-> FALSE, lat |-> 1, starts |-> {0, 100}, delays |-> {0, 100}]
     [] n = "D" -> [name |-> <<4, 0, 0, 0, 0, 0, 0, 128>>, pref |-> 201, aac |-> TRUE,  lat |-> 1, starts |-> {700}, delays |-> {0}]]
=============================================================================
