----------------------------- MODULE Tp22Core ------------------------------
(***************************************************************************)
(* Functional core of the J1939-22 (CAN FD) data link layer of             *)
(* python-can-j1939 (j1939/j1939_22.py + the job loop): FD transport       *)
(* protocol with the originator's two session-number pools (8 RTS/CTS,     *)
(* 4 BAM), end-of-message status / acknowledge, and multi-PG packing.      *)
(* Same structure as Tp21Core: handlers are operators, state update first, *)
(* emitted frames / callbacks in `out`; the job pass is split into         *)
(* granules.                                                               *)
(***************************************************************************)
EXTENDS Addr, TLC

CONSTANTS T1, T2, T3, Th, T5, IdleSleep, WakeLat, NCm, NBam   \* time-outs; pool sizes (8 and 4 in the code)

WAITING_CTS == 0  SENDING_RTS_CTS == 1  SENDING_BAM == 2  SENDING_EOMS == 3
WAITING_EOMA == 4  EOMA_RECEIVED == 5  FINISHED == 6
R_BUSY == 1  R_RESOURCES == 2  R_TIMEOUT == 3
None == -1
FBFF == 2   FEFF == 3

Hash(sess, sa, da) == (sess % 16) * 65536 + (sa % 256) * 256 + (da % 256)
HashM(ff, ctr, sa, da) == (ff % 256) * 16777216 + (ctr % 256) * 65536 + (sa % 256) * 256 + (da % 256)
Has(m, k) == \E i \in 1..Len(m) : m[i].key = k
Idx(m, k) == CHOOSE i \in 1..Len(m) : m[i].key = k
Get(m, k) == m[Idx(m, k)]
Put(m, r) == IF Has(m, r.key) THEN [m EXCEPT ![Idx(m, r.key)] = r] ELSE Append(m, r)
Del(m, k) == SelectSeq(m, LAMBDA r : r.key # k)
Keys(m) == [i \in 1..Len(m) |-> m[i].key]

\* pools: sequences of booleans, TRUE = free
InitNode == [snd |-> <<>>, rcv |-> <<>>, mpg |-> <<>>, tok |-> 0, su |-> None,
             poolCm |-> [i \in 1..NCm |-> TRUE], poolBam |-> [i \in 1..NBam |-> TRUE]]
FreeIdx(p) == IF \E i \in 1..Len(p) : p[i] THEN CHOOSE i \in 1..Len(p) : p[i] /\ \A j \in 1..(i - 1) : ~p[j] ELSE 0
\* session numbers are 0-based on the wire
PutCm(ns, sess)  == [ns EXCEPT !.poolCm[sess + 1] = TRUE]
PutBam(ns, sess) == [ns EXCEPT !.poolBam[sess + 1] = TRUE]

TxCm(prio, from, to, ctl, sess, size, segs, b7, b8, pgn) ==
    TxFd(prio, PF_FDCM, to, from, FdCm(ctl, sess, size, segs, b7, b8, pgn))
TxAbort(from, to, sess, reason, pgn) == TxCm(7, from, to, FC_ABORT, sess, 16777215, 16777215, 16777215, reason, pgn)
TxCts(from, to, sess, n, next, pgn)  == TxCm(7, from, to, FC_CTS, sess, 16777215, next, n, 0, pgn)
TxEoms(from, to, sess, size, segs, pgn) == TxCm(7, from, to, FC_EOMS, sess, size, segs, 0, 0, pgn)
TxEoma(from, to, sess, size, segs, pgn) == TxCm(7, from, to, FC_EOMA, sess, size, segs, 255, 255, pgn)
TxDt(from, to, data) == TxFd(7, PF_FDDT, to, from, data)

Deliver(cfg, kind, prio, pgn, sa, dest, data) ==
    LET sel == SelectSeq(cfg.lst, LAMBDA l : ListenerTakes(l, dest))
    IN [i \in 1..Len(sel) |-> [k |-> "cb", kind |-> kind, tag |-> sel[i].tag, prio |-> prio, pgn |-> pgn,
                                sa |-> sa, data |-> data]]

R(ns, out) == [ns |-> ns, out |-> out, exc |-> FALSE]
Exc(ns)    == [ns |-> ns, out |-> <<>>, exc |-> TRUE]
Wake(ns)   == [ns EXCEPT !.tok = @ + 1]

(**************************** multi-PG packing *****************************)
\* cpg: [prio, cpgn, data]
RECURSIVE MpgBody(_)
MpgBody(cpgs) == IF cpgs = <<>> THEN <<>>
                 ELSE CpgHeader(2, 0, Head(cpgs).cpgn, Len(Head(cpgs).data)) \o Head(cpgs).data \o MpgBody(Tail(cpgs))
RECURSIVE MinPrio(_)
MinPrio(cpgs) == IF cpgs = <<>> THEN 7 ELSE Min2(Head(cpgs).prio, MinPrio(Tail(cpgs)))
\* padding: up to three zero bytes (a "padding service" header), then 0xAA
MpgPad(d) == LET n == FdLen(Len(d)) IN
             d \o [j \in 1..(n - Len(d)) |-> IF j <= 3 THEN 0 ELSE 170]
MpgFrame(ff, cpgs, sa, da) ==
    IF ff = FBFF THEN [k |-> "tx", id |-> sa, data |-> MpgPad(MpgBody(cpgs)), fd |-> TRUE, ext |-> FALSE]
    ELSE [k |-> "tx", id |-> MkId(MinPrio(cpgs), 0, 0, PF_MPG, da, sa), data |-> MpgPad(MpgBody(cpgs)), fd |-> TRUE, ext |-> TRUE]

\* placing one contained PG (time_limit > 0): walk the collection buffers of (ff, sa, da) by counter
RECURSIVE MpgPlace(_, _, _, _, _, _, _)
MpgPlace(ns, ff, ctr, sa, da, cpg, dline) ==
    LET key == HashM(ff, ctr, sa, da)
        len == Len(cpg.data)
    IN IF ~Has(ns.mpg, key)
       THEN Wake([ns EXCEPT !.mpg = Put(@, [key |-> key, dl |-> dline, cpgs |-> <<cpg>>, fill |-> 4 + len,
                                            ff |-> ff, sa |-> sa, da |-> da, ctr |-> ctr])])
       ELSE LET b == Get(ns.mpg, key) IN
            IF b.fill <= 60 - len
            THEN LET ns1 == [ns EXCEPT !.mpg = Put(@, [b EXCEPT !.fill = @ + 4 + len, !.dl = Min2(@, dline), !.cpgs = Append(@, cpg)])]
                 IN IF b.dl > dline THEN Wake(ns1) ELSE ns1       \* an earlier deadline: the job thread must know
            ELSE \* full: trigger sending, try the next buffer
                 MpgPlace(Wake([ns EXCEPT !.mpg = Put(@, [b EXCEPT !.dl = dline - cpg.tl])]), ff, ctr + 1, sa, da, cpg, dline)

(******************************* send_pgn **********************************)
\* a = [dp, pf, ps, prio, sa, data, tl (time limit, 0 = immediately), ff (frame format)]
SendPgn(ns, cfg, a, clk) ==
    LET len == Len(a.data) IN
    IF len <= 60
    THEN LET pdu1 == IsPdu1(a.pf)
             cpgn == a.dp * 65536 + a.pf * 256 + (IF pdu1 THEN 0 ELSE a.ps)
             da == IF pdu1 THEN a.ps ELSE GLOBAL
             prio == IF a.ff = FBFF THEN 0 ELSE a.prio
             cpg == [prio |-> prio, cpgn |-> cpgn, data |-> a.data, tl |-> a.tl]
         IN IF a.ff = FBFF /\ da # GLOBAL THEN [ns |-> ns, ret |-> FALSE, out |-> <<>>]
            ELSE IF a.tl = 0 THEN [ns |-> ns, ret |-> TRUE, out |-> << MpgFrame(a.ff, <<cpg>>, a.sa, da) >>]
            ELSE [ns |-> MpgPlace(ns, a.ff, 0, a.sa, da, cpg, clk + a.tl), ret |-> TRUE, out |-> <<>>]
    ELSE
    LET bam == a.ps = GLOBAL \/ IsPdu2(a.pf)
        da  == IF bam THEN GLOBAL ELSE a.ps
        free == FreeIdx(IF bam THEN ns.poolBam ELSE ns.poolCm)
    IN IF free = 0 THEN [ns |-> ns, ret |-> FALSE, out |-> <<>>]
       ELSE
       LET sess == free - 1
           key == Hash(sess, a.sa, da)
           nseg == NumSegments22(len)
       IN IF bam
          THEN LET pgnA == PgnOf(a.dp, a.pf, a.ps)
                   b == [key |-> key, pgn |-> pgnA, prio |-> a.prio, sess |-> sess, size |-> len, total |-> nseg,
                         data |-> a.data, st |-> SENDING_BAM, dl |-> clk + cfg.bamInt, sa |-> a.sa, da |-> GLOBAL,
                         next |-> 0, waitOn |-> None, act |-> clk]
               IN [ns |-> Wake([ns EXCEPT !.snd = Put(@, b), !.poolBam[free] = FALSE]), ret |-> TRUE,
                   out |-> << TxCm(a.prio, a.sa, GLOBAL, FC_BAM, sess, len, nseg, 255, 0, pgnA) >>]
          ELSE LET pgn0 == a.dp * 65536 + a.pf * 256
                   b == [key |-> key, pgn |-> pgn0, prio |-> a.prio, sess |-> sess, size |-> len, total |-> nseg,
                         data |-> a.data, st |-> WAITING_CTS, dl |-> clk + T3, sa |-> a.sa, da |-> a.ps,
                         next |-> 0, waitOn |-> 0, act |-> clk]
               IN [ns |-> Wake([ns EXCEPT !.snd = Put(@, b), !.poolCm[free] = FALSE]), ret |-> TRUE,
                   out |-> << TxCm(a.prio, a.sa, a.ps, FC_RTS, sess, len, nseg, Min2(cfg.maxc, nseg), 0, pgn0) >>]

(******************************* reception *********************************)
OnCm(ns, cfg, prio, sa, da, d, clk) ==
    IF Len(d) < 12 THEN R(ns, <<>>)                \* too short: ignored
    ELSE IF sa = GLOBAL THEN R(ns, <<>>)           \* 255 is not a source address (it would match our own BAM sessions)
    ELSE
    LET ctl == d[1] % 16
        sess == d[1] \div 16
        size == Rd3(d, 2)
        segn == Rd3(d, 5)
        pgn == Rd3(d, 10)
    IN
    CASE ctl = FC_RTS ->
           LET key == Hash(sess, sa, da)
               lim == Min2(d[8], segn)
               mr == Min2(cfg.maxc, lim)
           IN IF Has(ns.rcv, key) THEN R(ns, << TxAbort(da, sa, sess, R_BUSY, pgn) >>)
              ELSE LET b == [key |-> key, pgn |-> pgn, sess |-> sess, size |-> size, total |-> segn, nextp |-> 1,
                             border |-> mr, maxrec |-> mr, data |-> <<>>, dl |-> clk + T2, sa |-> sa, da |-> da,
                             act |-> clk]
                   IN R(Wake([ns EXCEPT !.rcv = Put(@, b)]), << TxCts(da, sa, sess, mr, 1, pgn) >>)
      [] ctl = FC_CTS ->
           LET key == Hash(sess, da, sa)
               num == d[8]
           IN IF ~Has(ns.snd, key) THEN R(ns, << TxAbort(da, sa, sess, R_RESOURCES, pgn) >>)
              ELSE LET b == Get(ns.snd, key) IN
                   IF num = 0 THEN R(Wake([ns EXCEPT !.snd = Put(@, [b EXCEPT !.dl = clk + Th, !.act = clk])]), <<>>)
                   ELSE IF segn < 1 \/ segn > b.total THEN R(ns, <<>>)     \* next segment outside the message: ignored
                   ELSE LET nxt == segn - 1
                            rest == b.total - nxt
                            n1 == Min2(Min2(Min2(num, b.total), cfg.maxc), rest)
                            b2 == [b EXCEPT !.next = nxt, !.waitOn = nxt + n1 - 1, !.st = SENDING_RTS_CTS,
                                            !.dl = clk, !.act = clk]
                        IN R(Wake([ns EXCEPT !.snd = Put(@, b2)]), <<>>)
      [] ctl = FC_EOMS ->
           LET key == Hash(sess, sa, da)
           IN IF ~Has(ns.rcv, key) THEN R(ns, <<>>)
              ELSE LET b == Get(ns.rcv, key)
                       ns1 == [ns EXCEPT !.rcv = Del(@, key)]
                   IN IF b.size = size /\ b.total = segn /\ Len(b.data) = b.size
                      THEN R(ns1, Deliver(cfg, "msg", prio, b.pgn, sa, da, b.data)
                                   \o (IF da # GLOBAL THEN << TxEoma(da, sa, sess, size, segn, b.pgn) >> ELSE <<>>))
                      ELSE R(ns1, IF da # GLOBAL THEN << TxAbort(da, sa, sess, R_RESOURCES, b.pgn) >> ELSE <<>>)
      [] ctl = FC_EOMA ->
           LET key == Hash(sess, da, sa)
           IN IF ~Has(ns.snd, key) THEN R(ns, << TxAbort(da, sa, sess, R_RESOURCES, pgn) >>)
              ELSE LET b == Get(ns.snd, key)
                       b2 == [b EXCEPT !.st = EOMA_RECEIVED, !.dl = clk, !.act = clk]
                   IN R(Wake([ns EXCEPT !.snd = Put(@, b2)]), Deliver(cfg, "eoma", prio, pgn, sa, da, d))
      [] ctl = FC_BAM ->
           LET key == Hash(sess, sa, da)
           IN IF Has(ns.rcv, key) THEN R([ns EXCEPT !.rcv = Del(@, key)], <<>>)
              ELSE LET b == [key |-> key, pgn |-> pgn, sess |-> sess, size |-> size, total |-> segn, nextp |-> 1,
                             border |-> None, maxrec |-> None, data |-> <<>>, dl |-> clk + T1, sa |-> sa, da |-> da,
                             act |-> clk]
                   IN R(Wake([ns EXCEPT !.rcv = Put(@, b)]), <<>>)
      [] ctl = FC_ABORT ->
           LET key == Hash(sess, da, sa)
           IN IF Has(ns.snd, key) /\ Get(ns.snd, key).st = WAITING_CTS
              THEN R([ns EXCEPT !.snd = Put(@, [Get(ns.snd, key) EXCEPT !.st = FINISHED, !.dl = clk, !.act = clk])], <<>>)
              ELSE R(ns, <<>>)
      [] OTHER -> Exc(ns)

OnDt(ns, cfg, prio, sa, da, d, clk) ==
    IF Len(d) <= 4 THEN R(ns, <<>>)
    ELSE
    LET sess == d[1] \div 16
        segn == Rd3(d, 2)
        key == Hash(sess, sa, da)
    IN IF segn = 0 \/ ~Has(ns.rcv, key) THEN R(ns, <<>>)
       ELSE
       LET b == Get(ns.rcv, key) IN
       IF b.nextp # segn THEN R(ns, <<>>)           \* out of order: ignored
       ELSE
       LET got == b.data \o SubSeq(d, 5, Len(d))
           b1 == [b EXCEPT !.data = got, !.nextp = segn + 1, !.act = clk]
       IN IF Len(got) >= b.size
          THEN LET b2 == [b1 EXCEPT !.data = SubSeq(got, 1, b.size), !.dl = IF da # GLOBAL THEN clk + T1 ELSE @]
               IN R(Wake([ns EXCEPT !.rcv = Put(@, b2)]), <<>>)
          ELSE IF da # GLOBAL /\ b.border = None
          THEN [ns |-> [ns EXCEPT !.rcv = Put(@, b1)], out |-> <<>>, exc |-> TRUE]    \* BAM-opened session addressed to us: KeyError
          ELSE IF da # GLOBAL /\ segn >= b.border
          THEN LET n == Min2(b.maxrec, b.total - b.border)
                   b2 == [b1 EXCEPT !.border = Min2(b.border + b.maxrec, b.total), !.dl = clk + T2]
               IN R(Wake([ns EXCEPT !.rcv = Put(@, b2)]), << TxCts(da, sa, sess, n, b.border + 1, b.pgn) >>)
          ELSE R([ns EXCEPT !.rcv = Put(@, [b1 EXCEPT !.dl = clk + T1])], <<>>)

\* unpacking of a multi-PG frame
RECURSIVE OnMpg(_, _, _, _, _)
OnMpg(cfg, prio, sa, da, d) ==
    IF Len(d) <= 4 THEN <<>>
    ELSE LET tos == d[1] \div 32
             tf == (d[1] \div 4) % 8
             cpgn == (d[1] % 4) * 65536 + d[2] * 256 + d[3]
             n == d[4]
             hi == Min2(4 + n, Len(d))
         IN IF tos = 0 THEN <<>>
            ELSE (IF tos = 2 /\ tf = 0 THEN Deliver(cfg, "msg", prio, cpgn, sa, da, SubSeq(d, 5, hi)) ELSE <<>>)
                 \o OnMpg(cfg, prio, sa, da, SubSeq(d, hi + 1, Len(d)))

Notify(ns, cfg, id, d, clk) ==
    LET pf == IdPf(id)  ps == IdPs(id)  dp == IdDp(id)  sa == IdSa(id)  prio == IdPrio(id)
        U(r) == [ns |-> r.ns, out |-> r.out, exc |-> r.exc, unmodeled |-> FALSE]
    IN
    IF IsPdu2(pf) THEN U(R(ns, Deliver(cfg, "msg", prio, dp * 65536 + pf * 256 + ps, sa, GLOBAL, d)))
    ELSE IF ps # GLOBAL /\ ~Accepts(cfg, ps) THEN U(R(ns, <<>>))
    ELSE CASE pf = PF_MPG /\ dp = 0 -> U(R(ns, OnMpg(cfg, prio, sa, ps, d)))
           [] pf = PF_FDCM /\ dp = 0 -> U(OnCm(ns, cfg, prio, sa, ps, d, clk))
           [] pf = PF_FDDT /\ dp = 0 -> U(OnDt(ns, cfg, prio, sa, ps, d, clk))
           [] pf \in {PF_TPCM, PF_TPDT} /\ dp = 0 -> U(R(ns, <<>>))      \* J1939-21 transport not allowed here
           [] pf \in {PF_ACLAIM, PF_REQ} /\ dp = 0 ->
                  [ns |-> ns, out |-> <<>>, exc |-> FALSE, unmodeled |-> TRUE]
           [] OTHER -> U(R(ns, Deliver(cfg, "msg", prio, dp * 65536 + pf * 256, sa, ps, d)))

(******************************* job pass **********************************)
PcIdle == [ph |-> "idle"]
PassBegin(ns, clk) == [ph |-> "rcv", keys |-> Keys(ns.rcv), nw |-> clk + IdleSleep, now |-> clk, did |-> FALSE]
G(ns, pc, out) == [ns |-> ns, pc |-> pc, out |-> out, dead |-> FALSE]
Dead(ns, pc)   == [ns |-> ns, pc |-> pc, out |-> <<>>, dead |-> TRUE]
Seg(b, k) == Dt22(b.data, b.sess, k)

Granule(ns, cfg, pc, clk) ==
    CASE pc.ph = "rcv" ->
           IF pc.keys = <<>>
           THEN G(ns, [ph |-> "mpg", keys |-> Keys(ns.mpg), nw |-> pc.nw, now |-> pc.now, did |-> pc.did], <<>>)
           ELSE LET k == Head(pc.keys)
                    rest == [pc EXCEPT !.keys = Tail(@)]
                IN IF ~Has(ns.rcv, k) THEN G(ns, rest, <<>>)
                   ELSE LET b == Get(ns.rcv, k) IN
                        IF b.dl > pc.now THEN G(ns, [rest EXCEPT !.nw = Min2(@, b.dl)], <<>>)
                        ELSE G([ns EXCEPT !.rcv = Del(@, k)], [rest EXCEPT !.did = TRUE],
                               IF b.da # GLOBAL THEN << TxAbort(b.da, b.sa, b.sess, R_TIMEOUT, b.pgn) >> ELSE <<>>)
      [] pc.ph = "mpg" ->
           IF pc.keys = <<>>
           THEN G(ns, [ph |-> "snd", keys |-> Keys(ns.snd), nw |-> pc.nw, now |-> pc.now, did |-> pc.did], <<>>)
           ELSE LET k == Head(pc.keys)
                    rest == [pc EXCEPT !.keys = Tail(@)]
                IN IF ~Has(ns.mpg, k) THEN Dead(ns, pc)
                   ELSE LET b == Get(ns.mpg, k) IN
                        IF b.dl > pc.now THEN G(ns, [rest EXCEPT !.nw = Min2(@, b.dl)], <<>>)
                        ELSE G([ns EXCEPT !.mpg = Del(@, k)], [rest EXCEPT !.did = TRUE],
                               << MpgFrame(b.ff, b.cpgs, b.sa, b.da) >>)
      [] pc.ph = "snd" ->
           IF pc.keys = <<>>
           THEN G(ns, [ph |-> "end", nw |-> pc.nw, now |-> pc.now, did |-> pc.did], <<>>)
           ELSE LET k == Head(pc.keys)
                    rest == [pc EXCEPT !.keys = Tail(@)]
                IN IF ~Has(ns.snd, k) THEN Dead(ns, pc)
                   ELSE LET b == Get(ns.snd, k) IN
                        IF b.dl > pc.now THEN G(ns, [rest EXCEPT !.nw = Min2(@, b.dl)], <<>>)
                        ELSE CASE b.st = WAITING_CTS ->
                                    G(PutCm([ns EXCEPT !.snd = Del(@, k)], b.sess), [rest EXCEPT !.did = TRUE],
                                      << TxAbort(b.sa, b.da, b.sess, R_TIMEOUT, b.pgn) >>)
                               [] b.st = SENDING_RTS_CTS ->
                                    G(ns, [ph |-> "burst", key |-> k, keys |-> rest.keys, nw |-> pc.nw,
                                           now |-> pc.now, did |-> pc.did], <<>>)
                               [] b.st \in {WAITING_EOMA, EOMA_RECEIVED, FINISHED} ->
                                    G(PutCm([ns EXCEPT !.snd = Del(@, k)], b.sess), [rest EXCEPT !.did = TRUE], <<>>)
                               [] b.st = SENDING_BAM ->
                                    LET pkg == b.next
                                        b1 == [b EXCEPT !.next = @ + 1, !.dl = clk + cfg.bamInt, !.act = clk,
                                                        !.st = IF pkg + 1 < b.total THEN SENDING_BAM ELSE SENDING_EOMS]
                                    IN G([ns EXCEPT !.snd = Put(@, b1)],
                                         [rest EXCEPT !.did = TRUE, !.nw = Min2(@, b1.dl)],
                                         << TxDt(b.sa, b.da, Seg(b, pkg + 1)) >>)
                               [] b.st = SENDING_EOMS ->
                                    G(PutBam([ns EXCEPT !.snd = Del(@, k)], b.sess), [rest EXCEPT !.did = TRUE],
                                      << TxEoms(b.sa, b.da, b.sess, b.size, b.total, b.pgn) >>)
                               [] OTHER -> G([ns EXCEPT !.snd = Del(@, k)], [rest EXCEPT !.did = TRUE], <<>>)
      [] pc.ph = "burst" ->
           LET b == Get(ns.snd, pc.key) IN
           IF b.next >= b.total
           THEN G(ns, [pc EXCEPT !.ph = "bexit"], <<>>)
           ELSE LET pkg == b.next
                    b1 == [b EXCEPT !.next = @ + 1, !.act = clk]
                    last == pkg + 1 = b.total
                    atEnd == pkg = b.waitOn
                    paced == cfg.cmdtInt # None
                    b2 == IF last THEN [b1 EXCEPT !.st = WAITING_EOMA, !.dl = clk + T5]
                          ELSE IF atEnd THEN [b1 EXCEPT !.st = WAITING_CTS, !.dl = clk + T3]
                          ELSE IF paced THEN [b1 EXCEPT !.dl = clk + cfg.cmdtInt]
                          ELSE b1
                IN G([ns EXCEPT !.snd = Put(@, b2)],
                     [pc EXCEPT !.ph = IF last THEN "eoms" ELSE IF atEnd \/ paced THEN "bexit" ELSE "burst", !.did = TRUE],
                     << TxDt(b.sa, b.da, Seg(b, pkg + 1)) >>)
      [] pc.ph = "eoms" ->
           LET b == Get(ns.snd, pc.key) IN
           G(ns, [pc EXCEPT !.ph = "bexit"], << TxEoms(b.sa, b.da, b.sess, b.size, b.total, b.pgn) >>)
      [] pc.ph = "bexit" ->
           LET b == Get(ns.snd, pc.key) IN
           G(ns, [ph |-> "snd", keys |-> pc.keys, nw |-> Min2(pc.nw, b.dl), now |-> pc.now, did |-> pc.did], <<>>)

PassEnd(ns, pc, clk) ==
    IF pc.nw - clk > 0
    THEN IF ns.tok > 0
         THEN [ns |-> [ns EXCEPT !.tok = @ - 1], pc |-> [ph |-> "again"], spin |-> FALSE, slept |-> FALSE, until |-> 0]
         ELSE [ns |-> [ns EXCEPT !.su = pc.nw + WakeLat], pc |-> PcIdle, spin |-> FALSE, slept |-> TRUE, until |-> pc.nw + WakeLat]
    ELSE [ns |-> ns, pc |-> [ph |-> "again"], spin |-> ~pc.did, slept |-> FALSE, until |-> 0]

RECURSIVE RunToEmit(_, _, _, _)
RunToEmit(ns, cfg, pc, clk) ==
    IF pc.ph \in {"end", "idle", "again", "woken"} THEN G(ns, pc, <<>>)
    ELSE LET r == Granule(ns, cfg, pc, clk) IN
         IF r.dead \/ r.out # <<>> THEN r ELSE RunToEmit(r.ns, cfg, r.pc, clk)
=============================================================================
