---------------------------- MODULE DispatchTp21 ----------------------------
(* C05 for J1939-21 transport frames: every (owned address set, TP frame) pair is one initial state; a frame   *)
(* addressed to an address nobody owns must produce no output and no state; one addressed to an owned or the  *)
(* global address is handled (here only: never raises for well-formed frames).                                *)
EXTENDS Tp21Core
VARIABLES own, intl, fr
Init == /\ own \in SUBSET {16, 17} /\ intl \in BOOLEAN
        /\ fr \in {[pf |-> pf, da |-> da, d |-> d] : pf \in {PF_TPCM, PF_TPDT}, da \in {16, 17, 48, 119, 254, 255},
                     d \in {CmRts(20, 3, 1, 53248), CmCts(1, 1, 53248), CmEoma(20, 3, 53248), CmBam(20, 3, 65226),
                            CmAbort(1, 53248), <<1, 1, 2, 3, 4, 5, 6, 7>>}}
Next == UNCHANGED <<own, intl, fr>>
Spec == Init /\ [][Next]_<<own, intl, fr>>
RECURSIVE SetToSeq2(_)
SetToSeq2(S) == IF S = {} THEN <<>> ELSE LET x == CHOOSE y \in S : \A z \in S : y <= z IN <<x>> \o SetToSeq2(S \ {x})
Cfg == [maxc |-> 2, bamInt |-> 50, cmdtInt |-> -1, paceMax |-> -1, cas |-> SetToSeq2(own),
        lst |-> << [tag |-> "ecu", kind |-> "all", adr |-> -1] >> \o (IF intl THEN << [tag |-> "i48", kind |-> "int", adr |-> 48] >> ELSE <<>>)]
Res == Notify(InitNode, Cfg, MkId(7, 0, 0, fr.pf, fr.da, 33), fr.d, 0)
Owned == own \cup (IF intl THEN {48} ELSE {})
ForeignIsInert == (fr.da # 255 /\ fr.da \notin Owned) => (Res.out = <<>> /\ Res.ns = InitNode /\ ~Res.exc)
OwnedIsHandled == (fr.da \in Owned /\ fr.d = CmRts(20, 3, 1, 53248) /\ fr.pf = PF_TPCM) => (Len(Res.out) = 1 /\ Res.ns.rcv # <<>>)
=============================================================================
