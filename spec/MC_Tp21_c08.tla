---------------------------- MODULE MC_Tp21_c08 -----------------------------
(* C08 model (J1939-21): reception on a stack may run between ANY two granules of that stack's own job pass       *)
(* (Sched = "preempt"); RTS/CTS with windows 2 / 1 (several CTS) and a broadcast, both directions.                 *)
EXTENDS Tp21
Lst(a) == << [tag |-> "ecu", kind |-> "all", adr |-> -1] >>
MC_Nodes == {"A", "B"}
MC_NodeCfg == [n \in MC_Nodes |->
    CASE n = "A" -> [maxc |-> 2, bamInt |-> 50, cmdtInt |-> -1, paceMax |-> -1, cas |-> <<16>>, lst |-> Lst(16), lat |-> 1]
      [] n = "B" -> [maxc |-> 1, bamInt |-> 50, cmdtInt |-> -1, paceMax |-> -1, cas |-> <<32>>, lst |-> Lst(32), lat |-> 1]]
Pay(n, s) == [i \in 1..n |-> (s * 16 + i) % 256]
M(src, sa, pf, ps, n, s) == [src |-> src, sa |-> sa, dp |-> 0, pf |-> pf, ps |-> ps, prio |-> 6, data |-> Pay(n, s)]
MC_Msgs == << M("A", 16, 208, 32, 15, 1), M("B", 32, 208, 16, 9, 2), M("B", 32, 254, 7, 9, 3) >>
=============================================================================
