-------------------------------- MODULE Addr --------------------------------
(***************************************************************************)
(* Addressing rules shared by the stack specifications and the monitors:   *)
(* which destination addresses a stack accepts and which listeners a       *)
(* message for a destination is handed to.                                 *)
(*   cfg.cas : sequence of addresses held by operational CAs               *)
(*   cfg.lst : sequence of listeners [tag, kind \in {"all","int","ca"}, adr] *)
(***************************************************************************)
EXTENDS Codec

\* ca.message_acceptable(dest) for an operational CA holding address a
CaAccepts(a, dest) == dest = GLOBAL \/ a = dest
\* destination filter of notify(): an ECU-level listener bound to that integer address, or a CA
Accepts(cfg, dest) ==
    \/ \E i \in 1..Len(cfg.lst) : cfg.lst[i].kind = "int" /\ cfg.lst[i].adr = dest
    \/ \E i \in 1..Len(cfg.cas) : CaAccepts(cfg.cas[i], dest)
\* _notify_subscribers: a listener takes a message for dest
ListenerTakes(l, dest) ==
    \/ l.kind = "all"
    \/ dest = GLOBAL
    \/ (l.kind = "ca" /\ CaAccepts(l.adr, dest))
    \/ (l.kind = "int" /\ l.adr = dest)
\* a message for dest reaches listener l of a stack configured cfg
Reaches(cfg, l, dest) == (dest = GLOBAL \/ Accepts(cfg, dest)) /\ ListenerTakes(l, dest)
=============================================================================
