SPECIFICATION Spec
CONSTANTS
  T1 = 750
  T2 = 1250
  T3 = 1250
  Th = 500
  IdleSleep = 5000
  WakeLat = 1
INVARIANT ForeignIsInert
INVARIANT OwnedIsHandled
CHECK_DEADLOCK FALSE
