----------------------------- MODULE Dm14Trace ------------------------------
(***************************************************************************)
(* Trace validation for DM14 memory access (C17, C18, C19): executions of  *)
(* real MemoryAccess objects on a client and a serving stack (plus an      *)
(* intruding third stack), recorded at parameter-group level by            *)
(* harness/scen_dm14.py, are replayed against the reference model          *)
(* Dm14Core: every DM14 / DM15 / DM16 either side hands to send_pgn, every *)
(* callback into the serving application with its arguments, what          *)
(* respond() returns, and what / when read() and write() return or raise   *)
(* must be what the model allows at that point.  Explicit monitors:        *)
(* nothing is served before the right key arrived; a request of another    *)
(* requester or for another pointer is never handed to the application     *)
(* and is answered - if at all - "operation failed" to its sender; the     *)
(* state machines and subscription lists are back to their initial         *)
(* values after a successful history.                                      *)
(***************************************************************************)
EXTENDS Dm14Core, Json, IOUtils
Batch == JsonDeserialize(IOEnv.TRACE_FILE)
VARIABLES tid, l, c, s, pend, gh, bad
vars == <<tid, l, c, s, pend, gh, bad>>
Tr == Batch[tid]
Ev == Tr.ev
SRV == Tr.srv
Init == /\ tid \in 1..Len(Batch) /\ l = 1
        /\ c = ClIdle /\ s = SvIdle
        /\ pend = [n \in {"C", "S", "I"} |-> <<>>]
        /\ gh = [start |-> 0, timeout |-> 0, keyok |-> FALSE, subs0 |-> [n \in {"C", "S"} |-> <<>>], subs |-> [n \in {"C", "S"} |-> <<>>],
                 abs |-> [n \in {"C", "S"} |-> [facade |-> 1, query |-> 1, server |-> 1]], seen0 |-> {}, lastok |-> TRUE]
        /\ bad = {}
St(a, b, p, g) == [c |-> a, s |-> b, pend |-> p, gh |-> g, bad |-> {}]
Keep == St(c, s, pend, gh)
Fail(why) == [Keep EXCEPT !.bad = {why}]
Has2(e, f) == f \in DOMAIN e
Cfg == [sec |-> Tr.sec, k |-> Tr.key_k]
Ptr(e) == Le2(e.address_lo) \o Le2(e.address_hi)

\* does the parameter group a stack hands to send_pgn match the one the model expects?
MatchPdu(h, e) ==
    /\ h.k = "pdu" /\ h.pgn = e.pgn /\ h.da = e.da
    \* DM14 / DM15 byte 2: bits 6-8 = upper bits of the 11-bit length (0: at most 255 objects here), bit 1 reserved = 1
    /\ (e.pgn \in {PGN_DM14, PGN_DM15} /\ Len(e.data) = 8) => (e.data[2] \div 32 = 0 /\ e.data[2] % 2 = 1)
    /\ CASE e.pgn = PGN_DM14 -> Len(e.data) = 8 /\ Dm14Dec(e.data) = h.f
         [] e.pgn = PGN_DM15 -> /\ Len(e.data) = 8
                                /\ LET d == Dm15Dec(e.data) IN
                                   /\ d.count = h.f.count /\ d.status = h.f.status /\ d.seed = h.f.seed /\ d.direct = h.f.direct
                                   /\ d.edcp = h.f.edcp /\ (h.f.err = None \/ d.err = h.f.err)     \* "not available" (all ones) unless failed
         [] OTHER -> /\ Dm16Data(e.data) = h.f.data
                     /\ e.data[1] = (IF Len(h.f.data) > 7 THEN 255 ELSE Len(h.f.data))
                     /\ \A j \in (Len(h.f.data) + 2)..Len(e.data) : e.data[j] = 255
Push(n, out) == [pend EXCEPT ![n] = @ \o out]
IsOpt(h) == "opt" \in DOMAIN h /\ h.opt
Strip(q) == SelectSeq(q, LAMBDA h : ~IsOpt(h))

Apply(e) ==
    CASE e.ev = "api" /\ e.op \in {"dm14_read", "dm14_write"} ->
           IF ~ClFree(c) THEN Fail("client call while another one is running")
           ELSE LET op == [cmd |-> IF e.op = "dm14_read" THEN CMD_READ ELSE CMD_WRITE, direct |-> e.direct, ptr |-> Ptr(e),
                           count |-> e.count, bytes |-> IF e.op = "dm14_write" THEN e.bytes ELSE <<>>, alg |-> Tr.sec, k |-> Tr.client_k]
                    r == ClStart(op, SRV)
                IN St(r.c, s, Push("C", r.out), [gh EXCEPT !.start = e.t, !.timeout = e.timeout])
      [] e.ev = "send" /\ e.node # "I" /\ pend[e.node] # <<>> /\ IsOpt(Head(pend[e.node])) /\ ~MatchPdu(Head(pend[e.node]), e) ->
           \* an optional answer (busy refusal of an intruding request) that the stack chose not to send: skip it
           [St(c, s, [pend EXCEPT ![e.node] = Tail(@)], gh) EXCEPT !.bad = {"RETRY"}]
      [] e.ev = "send" /\ e.node = "C" /\ Tr.self_intr /\ (pend["C"] = <<>> \/ ~MatchPdu(Head(pend["C"]), e)) ->
           \* an intruder uses the client's own address: the busy answers legitimately reach (and derail) the running client;
           \* only the serving side is judged then (not served, busy answer to the sender)
           St(c, s, [pend EXCEPT !["C"] = <<>>], gh)
      [] e.ev = "send" ->
           IF e.node = "I" THEN Keep
           ELSE IF pend[e.node] = <<>> THEN Fail("parameter group sent that the reference model does not expect")
           ELSE IF ~MatchPdu(Head(pend[e.node]), e) THEN Fail("parameter group differs from the one the reference model expects")
           ELSE IF e.node = "S" /\ Tr.sec /\ ~gh.keyok /\ (e.pgn = PGN_DM16 \/ (e.pgn = PGN_DM15 /\ Dm15Dec(e.data).status = ST_PROCEED /\ Dm15Dec(e.data).seed = NoSeed /\ Dm15Dec(e.data).count # 0))
                THEN Fail("served (proceed / data) before the right key was received")
           ELSE St(c, s, [pend EXCEPT ![e.node] = Tail(@)], gh)
      [] e.ev = "pdu" /\ e.node = "C" ->
           IF e.pgn = PGN_DM15 /\ Len(e.data) = 8
           THEN LET r == ClOnDm15(c, Dm15Dec(e.data), e.sa) IN St(r.c, s, Push("C", r.out), gh)
           ELSE IF e.pgn = PGN_DM16 /\ Len(e.data) >= 2 /\ ~(Len(e.data) = 8 /\ e.data[1] = 19 /\ c.st # "w_dm16")
           THEN St(ClOnDm16(c, Dm16Data(e.data), e.sa), s, pend, gh)
           ELSE Keep
      [] e.ev = "pdu" /\ e.node = "S" ->
           IF e.pgn = PGN_DM14 /\ Len(e.data) = 8
           THEN LET p == Dm14Dec(e.data)
                    r0 == SvOnDm14(s, Cfg, p, e.sa)
                    r == IF r0.busy THEN [r0 EXCEPT !.out = [i \in 1..Len(r0.out) |-> r0.out[i] @@ [opt |-> TRUE]]] ELSE r0
                    g2 == IF s.st = "w_key" /\ ~r.busy /\ r.s.st = "ask" THEN [gh EXCEPT !.keyok = TRUE]
                          ELSE IF r.s.st = "idle" THEN [gh EXCEPT !.keyok = FALSE] ELSE gh
                \* (a busy answer is sent from inside the handler, before anything that is still owed - it goes to the front)
                IN St(c, r.s, IF r0.busy THEN [pend EXCEPT !["S"] = r.out \o @] ELSE Push("S", r.out), g2)
           ELSE IF e.pgn = PGN_DM16 /\ s.st = "w_eoma" /\ e.sa = s.sa /\ Len(e.data) = 8 /\ e.data[1] = 19
           THEN LET r == SvOnAck(s) IN St(c, r.s, Push("S", r.out), gh)
           ELSE IF e.pgn = PGN_DM16 /\ Len(e.data) >= 2
           THEN LET r == SvOnDm16(s, Dm16Data(e.data), e.sa) IN St(c, r.s, Push("S", r.out), gh)
           ELSE Keep
      [] e.ev = "pdu" -> Keep
      [] e.ev = "srv" /\ e.what = "seed" ->
           IF s.st # "gen" THEN Fail("seed generated outside a seed/key exchange")
           ELSE LET r == SvSeed(s, e.seed) IN St(c, r.s, Push("S", r.out), gh)
      [] e.ev = "srv" /\ e.what = "proceed" ->
           IF s.st # "ask" \/ Strip(pend["S"]) # <<>> THEN Fail("request handed to the serving application (proceed callback) although the model does not allow it here")
           ELSE IF Tr.sec /\ ~gh.keyok THEN Fail("request handed to the serving application before the right key was received")
           ELSE LET q == ProceedCb(s) IN
                IF e.cmd # q.cmd \/ Le2(e.address_lo) \o Le2(e.address_hi) # q.ptr \/ e.ptype # q.ptype \/ e.count # q.count \/ e.sa # q.sa
                   \/ e.key # q.key \/ e.seed # q.seed
                THEN Fail("proceed callback arguments differ from what the client asked for")
                ELSE LET r == SvAnswer(s, e.ans) IN St(c, r.s, Push("S", r.out), gh)
      [] e.ev = "srv" /\ e.what = "notify" ->
           IF Strip(pend["S"]) # <<>> /\ Head(Strip(pend["S"])).k = "notify" THEN St(c, s, [pend EXCEPT !["S"] = Tail(Strip(@))], gh)
           ELSE Fail("serving application notified although the model does not allow it here")
      [] e.ev = "api" /\ e.op = "respond" ->
           LET r == SvRespond(s, [proceed |-> e.proceed, data |-> e.data, error |-> e.error, edcp |-> e.edcp]) IN
           St(c, r.s, Push("S", r.out), IF r.s.st = "idle" THEN [gh EXCEPT !.keyok = FALSE] ELSE gh)
      [] e.ev = "ret" /\ e.node = "S" ->
           IF Has2(e, "exc") THEN Fail("respond() raised")
           ELSE IF Strip(pend["S"]) = <<>> \/ Head(Strip(pend["S"])).k # "respret" THEN Fail("respond() returned although the model expects something else first")
           ELSE LET h == Head(Strip(pend["S"])) IN
                IF (h.none /\ ~e.none) \/ (~h.none /\ e.ret # h.data) THEN Fail("respond() did not return exactly the bytes the client wrote")
                ELSE St(c, s, [pend EXCEPT !["S"] = Tail(Strip(@))], gh)
      [] e.ev = "ret" /\ e.node = "C" /\ Tr.self_intr -> St(ClIdle, s, [pend EXCEPT !["C"] = <<>>], [gh EXCEPT !.lastok = FALSE])
      [] e.ev = "ret" /\ e.node = "C" ->
           IF Strip(pend["C"]) # <<>> THEN Fail("client call returned before it had sent what the model expects")
           ELSE LET r == ClResult(c) IN
                IF r.raises # Has2(e, "exc") THEN
                     (IF r.raises THEN Fail("client call returned although the operation failed / was not answered (error not surfaced)")
                      ELSE Fail("client call raised although the operation succeeded"))
                ELSE IF r.raises /\ r.code # None /\ e.code # r.code THEN Fail("exception does not name the error code the server sent")
                ELSE IF r.raises /\ c.st = "w_first" /\ e.t # gh.start + gh.timeout THEN Fail("no-response exception not at the caller's time-out")
                ELSE IF ~r.raises /\ c.st = "ok" /\ e.ret_bytes # r.data THEN Fail("read() did not return exactly the bytes the serving application supplied")
                ELSE St(ClAfterReturn(c), s, pend, [gh EXCEPT !.lastok = (c.st = "ok")])
      [] e.ev = "abs" ->
           IF e.node \notin {"C", "S"} THEN Keep
           ELSE St(c, s, pend, [gh EXCEPT !.subs[e.node] = e.subs, !.abs[e.node] = [facade |-> e.facade, query |-> e.query, server |-> e.server],
                                          !.subs0[e.node] = IF e.node \in gh.seen0 THEN @ ELSE e.subs, !.seen0 = @ \cup {e.node}])
      [] e.ev = "hang" -> Fail("a call into the stack does not return / the stacks produce events without end")
      [] e.ev = "jobdead" -> Fail("job thread died")
      [] e.ev = "spin" -> Fail("job thread busy-spins")
      [] OTHER -> Keep

Final(g, cc, ss, pp) ==
    IF \E n \in (IF Tr.self_intr THEN {"S"} ELSE {"C", "S"}) : Strip(pp[n]) # <<>> THEN {"the model expects a parameter group / callback that never happened"}
    ELSE IF Tr.expect_idle /\ g.lastok /\ (ss.st # "idle" \/ cc.st # "idle") THEN {"transaction not closed at the end"}
    ELSE IF Tr.expect_idle /\ g.lastok /\ \E n \in {"C", "S"} : g.abs[n] # [facade |-> 1, query |-> 1, server |-> 1]
    THEN {"a state machine is not idle after the last (successful) transaction"}
    ELSE IF Tr.expect_idle /\ g.lastok /\ g.subs["S"] # g.subs0["S"]
    THEN {"subscription list differs from its initial value after the last (successful) transaction"}
    ELSE {}
Done == l > Len(Ev)
Step ==
    /\ bad = {} /\ ~Done
    /\ LET r == Apply(Ev[l])
           retry == r.bad = {"RETRY"} IN
       /\ c' = r.c /\ s' = r.s /\ pend' = r.pend /\ gh' = r.gh
       /\ bad' = IF retry THEN {} ELSE IF r.bad = {} /\ l = Len(Ev) THEN Final(r.gh, r.c, r.s, r.pend) ELSE r.bad
       /\ l' = IF retry THEN l ELSE IF r.bad = {} THEN l + 1 ELSE l
    /\ UNCHANGED tid
Spec == Init /\ [][Step]_vars
Verdict == IF bad # {} THEN PrintT(<<"VERDICT", tid, l, bad>>)
           ELSE IF Done THEN PrintT(<<"VERDICT", tid, l, {}>>) ELSE TRUE
=============================================================================
