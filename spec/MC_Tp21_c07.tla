---------------------------- MODULE MC_Tp21_c07 -----------------------------
(* C07 model (J1939-21): hostile / malformed / stale frames at ANY point of a running transfer and of *)
(* idle stacks; then a fresh transfer.                                                                *)
EXTENDS Tp21
Lst(a) == << [tag |-> "ecu", kind |-> "all", adr |-> -1] >>
MC_Nodes == {"A", "B"}
MC_NodeCfg == [n \in MC_Nodes |->
    CASE n = "A" -> [maxc |-> 2, bamInt |-> 50, cmdtInt |-> -1, paceMax |-> -1, cas |-> <<16>>, lst |-> Lst(16), lat |-> 1]
      [] n = "B" -> [maxc |-> 1, bamInt |-> 50, cmdtInt |-> -1, paceMax |-> -1, cas |-> <<32>>, lst |-> Lst(32), lat |-> 1]]
Pay(n, s) == [i \in 1..n |-> (s * 16 + i) % 256]
M(src, sa, pf, ps, n, s) == [src |-> src, sa |-> sa, dp |-> 0, pf |-> pf, ps |-> ps, prio |-> 6, data |-> Pay(n, s)]
MC_Msgs == << M("A", 16, 208, 32, 15, 1), M("A", 16, 208, 32, 9, 2) >>
H(to, pf, da, sa, d) == [to |-> to, id |-> MkId(7, 0, 0, pf, da, sa), data |-> d]
P == 53248
MC_Adv == {
   H("A", PF_TPCM, 16, 32, CmCts(1, 1, P)),  H("A", PF_TPCM, 16, 32, CmCts(2, 2, P)),  H("A", PF_TPCM, 16, 32, CmCts(0, 1, P)),
   H("A", PF_TPCM, 16, 32, CmCts(1, 5, P)),  H("A", PF_TPCM, 16, 32, CmCts(1, 4, P)),  H("A", PF_TPCM, 16, 32, CmCts(1, 3, P)),  H("A", PF_TPCM, 16, 32, CmCts(255, 0, P)),
   H("A", PF_TPCM, 16, 32, CmEoma(15, 3, P)), H("A", PF_TPCM, 16, 32, CmAbort(1, P)),
   H("A", PF_TPCM, 16, 32, CmRts(15, 3, 1, P)), H("A", PF_TPCM, 16, 32, CmRts(0, 0, 0, P)), H("A", PF_TPCM, 255, 32, CmRts(9, 2, 2, P)),
   H("A", PF_TPCM, 16, 32, CmBam(9, 2, P)),   H("A", PF_TPCM, 255, 32, CmBam(9, 2, P)),
   H("A", PF_TPDT, 16, 32, <<1, 1, 2, 3, 4, 5, 6, 7>>), H("A", PF_TPDT, 16, 32, <<3, 1, 2, 3, 4, 5, 6, 7>>),
   H("A", PF_TPDT, 255, 32, <<1, 1, 2, 3, 4, 5, 6, 7>>),
   H("A", PF_TPCM, 16, 32, <<16, 9, 0>>),     H("A", PF_TPCM, 16, 32, <<99, 0, 0, 0, 0, 0, 208, 0>>),  H("A", PF_TPDT, 16, 32, <<>>),
   H("A", PF_TPCM, 16, 16, CmCts(1, 1, P)),   H("B", PF_TPCM, 32, 16, CmAbort(3, P)), H("B", PF_TPCM, 32, 16, CmRts(15, 3, 1, P)) }
=============================================================================
