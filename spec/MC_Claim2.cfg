SPECIFICATION Spec
CONSTANTS
  VetoT = 250
  ClaimT = 500
  IdleSleep = 5000
  WakeLat = 1
  Nodes <- MC_Nodes
  CaCfg <- MC_CaCfg
  Horizon = 3000
CONSTRAINT Bound
VIEW View
INVARIANT SaHeld
INVARIANT Unique
INVARIANT Settles
INVARIANT LowestKeeps
INVARIANT LoserFixed
CHECK_DEADLOCK FALSE
