---------------------------- MODULE DispatchTp22---------------------------
(* C05 for J1939-22 (FD) transport and multi-PG frames: every (owned address set, TP frame) pair is one initial state; a frame   *)
(* addressed to an address nobody owns must produce no output and no state; one addressed to an owned or the  *)
(* global address is handled (here only: never raises for well-formed frames).                                *)
EXTENDS Tp22Core
VARIABLES own, intl, fr
Init == /\ own \in SUBSET {16, 17} /\ intl \in BOOLEAN
        /\ fr \in {[pf |-> pf, da |-> da, d |-> d] : pf \in {PF_FDCM, PF_FDDT, PF_MPG}, da \in {16, 17, 48, 119, 254, 255},
                     d \in {FdCm(FC_RTS, 0, 121, 3, 1, 0, 53248), FdCm(FC_CTS, 0, 16777215, 1, 1, 0, 53248),
                            FdCm(FC_EOMS, 0, 121, 3, 0, 0, 53248), FdCm(FC_EOMA, 0, 121, 3, 255, 255, 53248),
                            FdCm(FC_BAM, 0, 121, 3, 255, 0, 65226), FdCm(FC_ABORT, 0, 16777215, 16777215, 255, 1, 53248),
                            <<0, 1, 0, 0, 1, 2, 3, 4>>, CpgHeader(2, 0, 53248, 3) \o <<7, 8, 9>> \o <<0>>}}
Next == UNCHANGED <<own, intl, fr>>
Spec == Init /\ [][Next]_<<own, intl, fr>>
RECURSIVE SetToSeq2(_)
SetToSeq2(S) == IF S = {} THEN <<>> ELSE LET x == CHOOSE y \in S : \A z \in S : y <= z IN <<x>> \o SetToSeq2(S \ {x})
Cfg == [maxc |-> 2, bamInt |-> 50, cmdtInt |-> -1, paceMax |-> -1, cas |-> SetToSeq2(own),
        lst |-> << [tag |-> "ecu", kind |-> "all", adr |-> -1] >> \o (IF intl THEN << [tag |-> "i48", kind |-> "int", adr |-> 48] >> ELSE <<>>)]
Res == Notify(InitNode, Cfg, MkId(7, 0, 0, fr.pf, fr.da, 33), fr.d, 0)
Owned == own \cup (IF intl THEN {48} ELSE {})
ForeignIsInert == (fr.da # 255 /\ fr.da \notin Owned) => (Res.out = <<>> /\ Res.ns = InitNode /\ ~Res.exc)
OwnedIsHandled == (fr.da \in Owned /\ fr.d = FdCm(FC_RTS, 0, 121, 3, 1, 0, 53248) /\ fr.pf = PF_FDCM) => (Len(Res.out) = 1 /\ Res.ns.rcv # <<>>)
=============================================================================
