---------------------------- MODULE MC_Tp22_c07b----------------------------
(* C07 model (FD), broadcast sessions: connection-mode control frames forged with the source address  *)
(* 255 (they carry the key of the victim's own BAM session) at ANY point of a broadcast, then a fresh  *)
(* broadcast; BAM pool of 1 (F32).                                                                     *)
EXTENDS Tp22
Lst(a) == << [tag |-> "ecu", kind |-> "all", adr |-> -1] >>
MC_Nodes == {"A", "B"}
MC_NodeCfg == [n \in MC_Nodes |->
    CASE n = "A" -> [maxc |-> 2, bamInt |-> 10, cmdtInt |-> -1, paceMax |-> -1, cas |-> <<16>>, lst |-> Lst(16), lat |-> 1]
      [] n = "B" -> [maxc |-> 1, bamInt |-> 10, cmdtInt |-> -1, paceMax |-> -1, cas |-> <<32>>, lst |-> Lst(32), lat |-> 1]]
Pay(n, s) == [i \in 1..n |-> (s * 16 + i) % 256]
M(src, sa, pf, ps, n, s) == [src |-> src, sa |-> sa, dp |-> 0, pf |-> pf, ps |-> ps, prio |-> 6, data |-> Pay(n, s), tl |-> 0, ff |-> 3]
MC_Msgs == << M("A", 16, 254, 49, 61, 1), M("A", 16, 254, 49, 62, 2) >>
H(to, pf, da, sa, d) == [to |-> to, id |-> MkId(7, 0, 0, pf, da, sa), data |-> d]
P == 53248
X == 16777215
MC_Adv == {
   H("A", PF_FDCM, 16, 255, FdCm(FC_EOMA, 0, 61, 2, 255, 255, 65073)), H("A", PF_FDCM, 16, 255, FdCm(FC_CTS, 0, X, 1, 1, 0, 65073)),
   H("A", PF_FDCM, 16, 255, FdCm(FC_ABORT, 0, X, X, 255, 1, 65073)),   H("A", PF_FDCM, 16, 255, FdCm(FC_CTS, 0, X, 2, 0, 0, 65073)),
   H("A", PF_FDCM, 255, 255, FdCm(FC_EOMA, 0, 61, 2, 255, 255, 65073)) }
=============================================================================
