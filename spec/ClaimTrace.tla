----------------------------- MODULE ClaimTrace -----------------------------
(***************************************************************************)
(* Trace validation for controller applications (C04, C13, C14 and the     *)
(* claim-state dependent part of C05): executions of real ECUs with real   *)
(* CAs (harness/scen_claim.py) are replayed against CaCore - every frame,  *)
(* callback, raised exception, sleep time and CA state - and the property  *)
(* monitors are evaluated at every step:                                   *)
(*  - every application frame a stack emits carries an address one of its  *)
(*    CAs holds at that moment; a CA without address originates only       *)
(*    claims / cannot-claim / request-for-claim from 254 (C13);            *)
(*  - at the end (bus quiet): every started CA is operational or           *)
(*    cannot-claim, no two operational CAs hold one address, every         *)
(*    contested address is held by the lowest NAME that claimed it, a      *)
(*    non-arbitrary loser said cannot-claim from 254 (C04).                *)
(***************************************************************************)
EXTENDS CaCore, Json, IOUtils

Batch == JsonDeserialize(IOEnv.TRACE_FILE)
VARIABLES tid, l, ns, pc, pend, claimed, bad
vars == <<tid, l, ns, pc, pend, claimed, bad>>
Tr == Batch[tid]
Ev == Tr.ev
Cfg(n) == Tr.cfg[n]
Nodes == DOMAIN Tr.cfg

MkCa(c) == IF c.bypass THEN BypassCa(c.name, c.pref, c.aac) ELSE InitCa(c.name, c.pref, c.aac)
Init == /\ tid \in 1..Len(Batch) /\ l = 1
        /\ ns = [n \in DOMAIN Batch[tid].cfg |-> InitNode([i \in 1..Len(Batch[tid].cfg[n].cas) |-> MkCa(Batch[tid].cfg[n].cas[i])])]
        /\ pc = [n \in DOMAIN Batch[tid].cfg |-> [ph |-> "idle"]]
        /\ pend = [n \in DOMAIN Batch[tid].cfg |-> <<>>]
        /\ claimed = <<>>          \* claims seen on the bus: sequence of [adr, name]
        /\ bad = {}

S(a, b, c, d) == [ns |-> a, pc |-> b, pend |-> c, claimed |-> d, bad |-> {}]
Keep == S(ns, pc, pend, claimed)
Fail(why) == [Keep EXCEPT !.bad = {why}]
Has2(e, f) == f \in DOMAIN e

MatchOut(h, e) ==
    CASE e.ev = "tx" -> h.k = "tx" /\ h.id = e.id /\ h.data = e.data /\ e.ext = TRUE /\ e.fd = FALSE
      [] e.ev = "cb" -> h.k = "cb" /\ h.tag = e.tag /\ h.pgn = e.pgn /\ h.sa = e.sa /\ h.data = e.data /\ h.prio = e.prio
      [] e.ev = "req" -> h.k = "req" /\ h.tag = e.tag /\ h.sa = e.sa /\ h.dest = e.dest /\ h.pgn = e.pgn

\* C13 monitor on a frame emitted by node n (independent of which handler produced it)
IsClaimFrame(e) == IdPf(e.id) = PF_ACLAIM /\ IdPs(e.id) = GLOBAL /\ IdDp(e.id) = 0
IsReqForClaimFromNull(e) == IdPf(e.id) = PF_REQ /\ IdDp(e.id) = 0 /\ IdSa(e.id) = NULLADDR /\ Len(e.data) = 3 /\ Rd3(e.data, 1) = PGN_ACLAIM
SaOk(nsn, e) ==
    \/ IsClaimFrame(e) /\ (IdSa(e.id) = NULLADDR \/ \E i \in 1..Len(nsn.cas) : nsn.cas[i].name = e.data
                                                        /\ IdSa(e.id) = (IF nsn.cas[i].st = NORMAL THEN nsn.cas[i].adr ELSE nsn.cas[i].ann))
    \/ IsReqForClaimFromNull(e)
    \/ \E i \in 1..Len(nsn.cas) : nsn.cas[i].st = NORMAL /\ nsn.cas[i].adr = IdSa(e.id)
Note(cl, e) == IF IsClaimFrame(e) /\ Len(e.data) = 8
               THEN Append(cl, [adr |-> IdSa(e.id), name |-> e.data]) ELSE cl

AbsCas(cas) == [i \in 1..Len(cas) |-> [st |-> cas[i].st, ann |-> cas[i].ann, adr |-> cas[i].adr]]

Apply(e) ==
    LET n == e.node IN
    CASE e.ev = "api" /\ e.op = "start" ->
           S([ns EXCEPT ![n] = Start(ns[n], e.ca, e.delay, e.t)], pc, pend, claimed)
      [] e.ev = "api" /\ e.op = "stop" -> S([ns EXCEPT ![n] = Stop(ns[n], e.ca)], pc, pend, claimed)
      [] e.ev = "api" /\ e.op \in {"ca_send_pgn", "ca_send_message", "ca_send_request"} ->
           LET ca == ns[n].cas[e.ca]
               r == CASE e.op = "ca_send_pgn" -> TrySendPgn(ca, e.dp, e.pf, e.ps, e.prio, e.data)
                      [] e.op = "ca_send_message" -> TrySendMessage(ca, e.prio, e.pgn, e.data)
                      [] OTHER -> TrySendRequest(ca, e.dp, e.pgn, e.dest)
           IN IF r.raises # Has2(e, "exc") THEN Fail("send guard: raises / does not raise differently from the specification")
              ELSE S(ns, pc, [pend EXCEPT ![n] = r.out \o @], claimed)
      [] e.ev \in {"tx", "cb", "req"} ->
           IF e.ev = "tx" /\ ~SaOk(ns[n], e) /\ pend[n] = <<>> /\ pc[n].ph # "t"
           THEN Fail("frame from an address no CA of this stack holds")
           ELSE IF pend[n] # <<>>
           THEN IF MatchOut(Head(pend[n]), e)
                THEN (IF e.ev = "tx" /\ ~SaOk(ns[n], e) THEN Fail("frame from an address no CA of this stack holds")
                      ELSE S(ns, pc, [pend EXCEPT ![n] = Tail(@)], IF e.ev = "tx" THEN Note(claimed, e) ELSE claimed))
                ELSE Fail("output differs from what the specification predicts")
           ELSE IF pc[n].ph = "t" /\ e.ev = "tx"
           THEN LET r == RunToEmit(ns[n], pc[n]) IN
                IF r.out = <<>> THEN Fail("tx not predicted by the claim timers")
                ELSE IF ~MatchOut(r.out[1], e) THEN Fail("claim frame differs from what the specification predicts")
                ELSE IF ~SaOk(r.ns, e) THEN Fail("frame from an address no CA of this stack holds")
                ELSE S([ns EXCEPT ![n] = r.ns], [pc EXCEPT ![n] = r.pc], pend, Note(claimed, e))
           ELSE Fail("output without a cause")
      [] e.ev = "rx" /\ Has2(e, "flags") /\ (~e.flags.ext \/ e.flags.remote \/ e.flags.error) ->
           \* only extended-id data frames are processed at all (11-bit, remote and error frames are ignored)
           IF Has2(e, "exc") THEN Fail("rx exception behaviour") ELSE Keep
      [] e.ev = "rx" ->
           LET r == Notify(ns[n], Cfg(n), e.id, e.data) IN
           IF r.unmodeled THEN Fail("input outside this specification")
           \* (a frame fed in through the python-can listener: the listener logs and swallows exceptions of notify())
           ELSE IF Has2(e, "exc") # (r.exc /\ ~Has2(e, "flags")) THEN Fail("rx exception behaviour")
           ELSE S([ns EXCEPT ![n] = r.ns], pc, [pend EXCEPT ![n] = r.out \o @], claimed)
      [] e.ev = "ptx" -> S(ns, pc, pend, Note(claimed, e))
      [] e.ev = "wake" ->
           IF pc[n].ph # "idle" THEN Fail("wake while running")
           ELSE IF e.why = "token"
           THEN IF ns[n].tok > 0 THEN S([ns EXCEPT ![n].tok = @ - 1, ![n].su = None], [pc EXCEPT ![n] = [ph |-> "woken"]], pend, claimed)
                ELSE S([ns EXCEPT ![n].su = None], [pc EXCEPT ![n] = [ph |-> "woken"]], pend, claimed)      \* a redundant wake-up: harmless
           ELSE IF ns[n].su = e.t THEN S([ns EXCEPT ![n].su = None], [pc EXCEPT ![n] = [ph |-> "woken"]], pend, claimed)
                ELSE Fail("wake-up time differs from the sleep the specification computed")
      [] e.ev = "job" ->
           IF pc[n].ph \in {"woken", "again"} \/ (pc[n].ph = "idle" /\ ns[n].su = None)
           THEN S(ns, [pc EXCEPT ![n] = PassBegin(ns[n], e.t)], pend, claimed)
           ELSE IF pc[n].ph = "idle" THEN Fail("pass without wake-up")
           ELSE LET r == RunToEmit(ns[n], pc[n]) IN
                IF r.out # <<>> \/ r.pc.ph # "end" THEN Fail("previous pass not finished as predicted")
                ELSE LET pe == PassEnd(r.ns, r.pc, e.t) IN
                     IF pe.slept THEN Fail("code starts a new pass where the specification sleeps")
                     ELSE S([ns EXCEPT ![n] = pe.ns], [pc EXCEPT ![n] = PassBegin(pe.ns, e.t)], pend, claimed)
      [] e.ev = "sleep" ->
           IF pc[n].ph \notin {"t", "end"} THEN Fail("sleep outside a pass")
           ELSE LET r == RunToEmit(ns[n], pc[n]) IN
                IF r.out # <<>> \/ r.pc.ph # "end" THEN Fail("pass not finished as predicted before sleep")
                ELSE LET pe == PassEnd(r.ns, r.pc, e.t) IN
                     IF e.tok = 1
                     THEN IF ~pe.slept /\ r.pc.nw - e.t > 0 THEN S([ns EXCEPT ![n] = pe.ns], [pc EXCEPT ![n] = [ph |-> "again"]], pend, claimed)
                          ELSE IF pe.slept THEN S([ns EXCEPT ![n] = [pe.ns EXCEPT !.su = None]], [pc EXCEPT ![n] = [ph |-> "again"]], pend, claimed)   \* redundant token
                          ELSE Fail("token consumed where the specification has none")
                     \* sleeping shorter than necessary is harmless (an extra pass); sleeping longer serves the claim timer late
                     ELSE IF pe.slept /\ e.until <= pe.until /\ e.until > e.t THEN S([ns EXCEPT ![n] = [pe.ns EXCEPT !.su = e.until]], [pc EXCEPT ![n] = [ph |-> "idle"]], pend, claimed)
                          ELSE Fail("sleep time differs from the specification (claim timer served late)")
      [] e.ev = "abs" ->
           IF pc[n].ph # "idle" \/ pend[n] # <<>> THEN Keep
           ELSE IF e.cas # AbsCas(ns[n].cas) THEN Fail("controller application state differs")
           ELSE IF e.tok < ns[n].tok THEN Fail("wake-up tokens differ")           \* a lost wake-up; more tokens are redundant wake-ups
           ELSE S([ns EXCEPT ![n].tok = e.tok], pc, pend, claimed)
      [] e.ev = "hang" -> Fail("a call into the stack does not return / the stacks produce events without end")
      [] e.ev = "jobdead" -> Fail("job thread died")
      [] e.ev = "spin" -> Fail("job thread busy-spins")
      [] e.ev \in {"lost", "note", "end", "token"} -> Keep
      [] OTHER -> Fail("unknown event")

(* C04: judged at the end of the trace, when the bus has been quiet for longer than every claim time-out *)
AllCas == {<<n, i>> : n \in Nodes, i \in 1..20} \cap {<<n, i>> \in (Nodes \X (1..20)) : i <= Len(ns[n].cas)}
CaOf(p, nss) == nss[p[1]].cas[p[2]]
Final(nss, cl) ==
    LET P == {<<n, i>> \in (Nodes \X (1..8)) : i <= Len(nss[n].cas)}
        started == {p \in P : CaOf(p, nss).started \/ CaOf(p, nss).st # NONE}
        op == {p \in P : CaOf(p, nss).st = NORMAL}
        claimants(x) == {cl[j].name : j \in {k \in 1..Len(cl) : cl[k].adr = x}}
        contested == {x \in {cl[j].adr : j \in 1..Len(cl)} \ {NULLADDR} : Cardinality(claimants(x)) >= 2}
    IN (IF \E p \in started : CaOf(p, nss).st \notin {NORMAL, CANNOT_CLAIM} THEN {"a CA has not settled (neither operational nor cannot-claim)"} ELSE {})
       \cup (IF \E p, q \in op : p # q /\ CaOf(p, nss).adr = CaOf(q, nss).adr THEN {"two operational CAs hold the same address"} ELSE {})
       \cup (IF \E x \in contested : ~\E p \in op : CaOf(p, nss).adr = x /\ \A nm \in claimants(x) : nm = CaOf(p, nss).name \/ NameLess(CaOf(p, nss).name, nm)
             THEN {"a contested address is not held by the lowest NAME that claimed it"} ELSE {})
       \cup (IF \E p \in P : CaOf(p, nss).st = CANNOT_CLAIM /\ ~\E j \in 1..Len(cl) : cl[j].adr = NULLADDR /\ cl[j].name = CaOf(p, nss).name
             THEN {"a CA that lost its address did not announce cannot-claim from the null address"} ELSE {})
       \cup (IF \E p \in P : CaOf(p, nss).st = CANNOT_CLAIM /\ CaOf(p, nss).aac THEN {"an arbitrary-address-capable CA gave up instead of claiming another address"} ELSE {})

Done == l > Len(Ev)
Step ==
    /\ bad = {} /\ ~Done
    /\ LET r == Apply(Ev[l]) IN
       /\ ns' = r.ns /\ pc' = r.pc /\ pend' = r.pend /\ claimed' = r.claimed
       /\ bad' = IF r.bad = {} /\ l = Len(Ev)
                 THEN (IF \E n \in Nodes : r.pend[n] # <<>> THEN {"predicted output never happened"}
                       ELSE IF Tr.expect.settled THEN Final(r.ns, r.claimed) ELSE {})
                 ELSE r.bad
       /\ l' = IF r.bad = {} THEN l + 1 ELSE l
    /\ UNCHANGED tid
Spec == Init /\ [][Step]_vars
Verdict == IF bad # {} THEN PrintT(<<"VERDICT", tid, l, bad>>)
           ELSE IF Done THEN PrintT(<<"VERDICT", tid, l, {}>>) ELSE TRUE
=============================================================================
