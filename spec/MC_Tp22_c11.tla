---------------------------- MODULE MC_Tp22_c11 -----------------------------
(* C11 model: small parameter groups with and without time limit, to one destination and to the      *)
(* global address, submitted at arbitrary instants relative to the job thread's sleep: each group is  *)
(* on the bus once, no later than its limit (+ wake latency), never mixed, and delivered once.        *)
EXTENDS Tp22
Lst(a) == << [tag |-> "ecu", kind |-> "all", adr |-> -1] >>
MC_Nodes == {"A", "B"}
MC_NodeCfg == [n \in MC_Nodes |->
    CASE n = "A" -> [maxc |-> 1, bamInt |-> 10, cmdtInt |-> -1, paceMax |-> -1, cas |-> <<16>>, lst |-> Lst(16), lat |-> 1]
      [] n = "B" -> [maxc |-> 1, bamInt |-> 10, cmdtInt |-> -1, paceMax |-> -1, cas |-> <<32>>, lst |-> Lst(32), lat |-> 1]]
Pay(n, s) == [i \in 1..n |-> (s * 16 + i) % 256]
M(pf, ps, n, s, tl, ff) == [src |-> "A", sa |-> 16, dp |-> 0, pf |-> pf, ps |-> ps, prio |-> 6, data |-> Pay(n, s), tl |-> tl, ff |-> ff]
MC_Msgs == << M(208, 32, 28, 1, 20, 3), M(209, 32, 28, 2, 5, 3), M(210, 32, 2, 3, 30, 3), M(254, 7, 8, 4, 20, 3), M(254, 8, 8, 5, 0, 2) >>
=============================================================================
