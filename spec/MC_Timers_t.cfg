SPECIFICATION Spec
CONSTANTS
  IdleSleep = 50
  WakeLat = 1
  Scripts <- MC_Scripts
  Deltas = {2, 3, 5}
  MaxOps = 3
  Horizon = 14
CONSTRAINT Bound
INVARIANT MonOk
INVARIANT NoSuppression
INVARIANT NoOversleep
INVARIANT Agree
CHECK_DEADLOCK FALSE
