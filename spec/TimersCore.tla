---------------------------- MODULE TimersCore ------------------------------
(***************************************************************************)
(* The timer list of ElectronicControlUnit and the part of the job loop    *)
(* that serves it (electronic_control_unit.py: add_timer, remove_timer,    *)
(* _async_job_thread).  Python list semantics are explicit: the pass walks *)
(* a snapshot of the list and skips registrations that have been removed   *)
(* in the meantime; callbacks are scripted (return value, nested           *)
(* add_timer / remove_timer calls, also on themselves).                    *)
(*                                                                         *)
(* A registration is [rid, cb, delta, dl]; rid is the identity of the      *)
(* registration (the cookie the harness passes), cb the callback identity. *)
(* Script(cb) = [ret |-> BOOLEAN, ops |-> sequence of nested operations    *)
(*               [op |-> "add", cb, delta] / [op |-> "remove", cb]].       *)
(***************************************************************************)
EXTENDS Naturals, Integers, Sequences, FiniteSets, TLC

CONSTANTS IdleSleep, WakeLat
None == -1
Min2(a, b) == IF a < b THEN a ELSE b

InitT == [tms |-> <<>>, tok |-> 0, su |-> None, nextRid |-> 1]

HasRid(tms, rid) == \E i \in 1..Len(tms) : tms[i].rid = rid
IdxRid(tms, rid) == CHOOSE i \in 1..Len(tms) : tms[i].rid = rid
DelRid(tms, rid) == SelectSeq(tms, LAMBDA e : e.rid # rid)

\* add_timer(delta, cb): append, wake the job thread.  rid is chosen by the caller (harness: a counter)
AddTimer(ts, cb, delta, clk) ==
    [ts EXCEPT !.tms = Append(@, [rid |-> ts.nextRid, cb |-> cb, delta |-> delta, dl |-> clk + delta]),
               !.tok = @ + 1, !.nextRid = @ + 1]
\* remove_timer(cb): ALL registrations of cb, wake the job thread
RemoveTimer(ts, cb) ==
    [ts EXCEPT !.tms = SelectSeq(@, LAMBDA e : e.cb # cb), !.tok = @ + 1]

\* nested operations a callback performs
RECURSIVE DoOps(_, _, _)
DoOps(ts, ops, clk) ==
    IF ops = <<>> THEN ts
    ELSE LET o == Head(ops) IN
         DoOps(IF o.op = "add" THEN AddTimer(ts, o.cb, o.delta, clk) ELSE RemoveTimer(ts, o.cb), Tail(ops), clk)

\* deadline after an expiry of a periodic registration: "while deadline <= now: deadline += delta"
RECURSIVE Advance(_, _, _)
Advance(dl, delta, now) == IF dl <= now /\ delta > 0 THEN Advance(dl + delta, delta, now) ELSE dl

\* one pass over the timers.  snap: the snapshot (sequence of rids) still to visit; nw: next wake-up so far;
\* now: time.time() at the start of the pass (what the deadlines are compared with); clk: the clock, which advances
\* while a callback is busy (Script(cb).busy); fired: sequence of [rid, cb, t] fired in this pass (in order).
RECURSIVE TimerPass(_, _, _, _, _, _, _)
TimerPass(Script(_), ts, snap, nw, now, clk, fired) ==
    IF snap = <<>> THEN [ts |-> ts, nw |-> nw, fired |-> fired, clk |-> clk]
    ELSE LET rid == Head(snap) IN
         IF ~HasRid(ts.tms, rid) THEN TimerPass(Script, ts, Tail(snap), nw, now, clk, fired)     \* removed meanwhile
         ELSE LET e == ts.tms[IdxRid(ts.tms, rid)] IN
              IF e.dl > now THEN TimerPass(Script, ts, Tail(snap), Min2(nw, e.dl), now, clk, fired)
              ELSE LET sc == Script(e.cb)
                       clk1 == clk + sc.busy                          \* the callback takes this long ...
                       ts1 == DoOps(ts, sc.ops, clk1)                 \* ... and then does this
                       f2 == Append(fired, [rid |-> rid, cb |-> e.cb, t |-> clk])
                   IN IF sc.ret
                      THEN LET dl2 == Advance(e.dl, e.delta, now)
                               ts2 == IF HasRid(ts1.tms, rid)
                                      THEN [ts1 EXCEPT !.tms[IdxRid(ts1.tms, rid)].dl = dl2] ELSE ts1
                           IN TimerPass(Script, ts2, Tail(snap), Min2(nw, dl2), now, clk1, f2)
                      ELSE TimerPass(Script, [ts1 EXCEPT !.tms = DelRid(@, rid)], Tail(snap), nw, now, clk1, f2)

Rids(tms) == [i \in 1..Len(tms) |-> tms[i].rid]
\* a whole job pass of an ECU without transport sessions, then the sleep decision
\* [ts, fired, slept, until, clk]
JobPass(Script(_), ts, now) ==
    LET r == TimerPass(Script, ts, Rids(ts.tms), now + IdleSleep, now, now, <<>>) IN
    IF r.nw - r.clk > 0
    THEN IF r.ts.tok > 0
         THEN [ts |-> [r.ts EXCEPT !.tok = @ - 1], fired |-> r.fired, slept |-> FALSE, until |-> 0, clk |-> r.clk]
         ELSE [ts |-> [r.ts EXCEPT !.su = r.nw + WakeLat], fired |-> r.fired, slept |-> TRUE, until |-> r.nw + WakeLat, clk |-> r.clk]
    ELSE [ts |-> r.ts, fired |-> r.fired, slept |-> FALSE, until |-> 0, clk |-> r.clk]
=============================================================================
