SPECIFICATION Spec
CONSTANTS
  T1 = 750
  T2 = 1250
  T3 = 1250
  Th = 500
  T5 = 3000
  NCm = 8
  NBam = 4
  IdleSleep = 5000
  WakeLat = 1
INVARIANT ForeignIsInert
INVARIANT OwnedIsHandled
CHECK_DEADLOCK FALSE
