------------------------------ MODULE MC_Dm14 -------------------------------
EXTENDS Dm14
P1 == <<3, 0, 0, 146>>   P2 == <<4, 0, 0, 146>>
MC_Ops == << [cmd |-> CMD_READ,  direct |-> 1, ptr |-> P1, count |-> 3, bytes |-> <<>>, alg |-> TRUE, k |-> 7],
             [cmd |-> CMD_WRITE, direct |-> 1, ptr |-> P2, count |-> 2, bytes |-> <<5, 6>>, alg |-> TRUE, k |-> 7],
             [cmd |-> CMD_READ,  direct |-> 0, ptr |-> P1, count |-> 8, bytes |-> <<>>, alg |-> TRUE, k |-> 9] >>      \* wrong key algorithm
MC_Responds == { [proceed |-> TRUE, data |-> <<1, 6, 11>>, error |-> 16777215, edcp |-> 255],
                 [proceed |-> TRUE, data |-> <<1, 2, 3, 4, 5, 6, 7, 8>>, error |-> 16777215, edcp |-> 255],
                 [proceed |-> FALSE, data |-> <<>>, error |-> 257, edcp |-> 6] }
MC_Intruders == { [sa |-> 224, ptr |-> P2], [sa |-> 249, ptr |-> <<9, 9, 9, 9>>] }
=============================================================================
