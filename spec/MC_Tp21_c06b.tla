---------------------------- MODULE MC_Tp21_c06b----------------------------
(* C06 model: a connection-mode transfer (3 packets, windows 2/2) and a broadcast, at most one frame  *)
(* lost at ANY emission, then a follow-up transfer on the same pair.                                  *)
EXTENDS Tp21
Lst(a) == << [tag |-> "ecu", kind |-> "all", adr |-> -1] >>
MC_Nodes == {"A", "B"}
MC_NodeCfg == [n \in MC_Nodes |->
    CASE n = "A" -> [maxc |-> 2, bamInt |-> 50, cmdtInt |-> -1, paceMax |-> -1, cas |-> <<16>>, lst |-> Lst(16), lat |-> 1]
      [] n = "B" -> [maxc |-> 2, bamInt |-> 50, cmdtInt |-> -1, paceMax |-> -1, cas |-> <<32>>, lst |-> Lst(32), lat |-> 1]]
Pay(n, s) == [i \in 1..n |-> (s * 16 + i) % 256]
MC_Msgs == << [src |-> "A", sa |-> 16, dp |-> 0, pf |-> 208, ps |-> 32, prio |-> 6, data |-> Pay(15, 1)],
              [src |-> "A", sa |-> 16, dp |-> 0, pf |-> 208, ps |-> 32, prio |-> 6, data |-> Pay(16, 2)],
              [src |-> "B", sa |-> 32, dp |-> 0, pf |-> 254, ps |-> 18, prio |-> 6, data |-> Pay(10, 3)] >>
=============================================================================
