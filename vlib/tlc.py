"""thin wrapper around TLC (tla2tools 1.8) - runs, parses statistics, never guesses."""
import os
import re
import shutil
import subprocess
import time

VERIF = os.path.dirname(os.path.dirname(os.path.abspath(__file__)))
SPEC = os.path.join(VERIF, "spec")
OUT = os.path.join(VERIF, "out")
JAR = "/opt/veriftools/tla/tla2tools.jar:/opt/veriftools/tla/CommunityModules-deps.jar"


class TlcError(Exception):
    """machinery failure (parse error, crash, timeout) - never a verdict"""


def tlc_cmd(module, cfg, workers=1, metadir=None, extra=(), deque=False, heap="2g", tmpdir=None):
    cmd = ["java", "-XX:+UseParallelGC", "-Xmx" + heap]
    if tmpdir:
        # TLC leaves one /tmp/tlc-<n> directory behind per run; keep them in a scratch directory that run() removes
        cmd.append("-Djava.io.tmpdir=" + tmpdir)
    if deque:
        cmd.append("-Dtlc2.tool.queue.IStateQueue=StateDeque")
    cmd += ["-cp", JAR, "tlc2.TLC", "-workers", str(workers), "-noGenerateSpecTE",
            "-metadir", metadir, "-config", cfg]
    cmd += list(extra)
    cmd.append(module)
    return cmd


def run(module, cfg, workers=1, env=None, extra=(), timeout=3600, tag=None, deque=False, heap="2g"):
    """run TLC in spec/; returns dict(rc, out, wall_s, stats...)."""
    os.makedirs(OUT, exist_ok=True)
    tag = tag or ("%s-%d-%d" % (os.path.basename(module), os.getpid(), int(time.time() * 1000) % 1000000))
    metadir = os.path.join(OUT, "meta-" + tag)
    shutil.rmtree(metadir, ignore_errors=True)
    tmpdir = metadir + "-tmp"
    shutil.rmtree(tmpdir, ignore_errors=True)
    os.makedirs(tmpdir, exist_ok=True)
    e = dict(os.environ)
    if env:
        e.update(env)
    t0 = time.time()
    try:
        p = subprocess.run(tlc_cmd(module, cfg, workers, metadir, extra, deque, heap, tmpdir), cwd=SPEC, env=e,
                           stdout=subprocess.PIPE, stderr=subprocess.STDOUT, timeout=timeout, text=True)
    except subprocess.TimeoutExpired:
        shutil.rmtree(metadir, ignore_errors=True)
        shutil.rmtree(tmpdir, ignore_errors=True)
        raise TlcError("TLC timeout on %s / %s" % (module, cfg))
    finally:
        pass
    shutil.rmtree(metadir, ignore_errors=True)
    shutil.rmtree(tmpdir, ignore_errors=True)
    res = {"rc": p.returncode, "out": p.stdout, "wall_s": time.time() - t0}
    res.update(parse_stats(p.stdout))
    return res


_RE_STATS = re.compile(r"(\d+) states generated, (\d+) distinct states found, (\d+) states left on queue")
_RE_SIM = re.compile(r"The number of states generated: (\d+)")
_RE_DEPTH = re.compile(r"The depth of the complete state graph search is (\d+)")


def parse_stats(out):
    st = {"generated": 0, "distinct": 0, "queue": 0, "depth": 0}
    for m in _RE_STATS.finditer(out):
        st["generated"], st["distinct"], st["queue"] = int(m.group(1)), int(m.group(2)), int(m.group(3))
    m = _RE_SIM.search(out)
    if m and not st["generated"]:
        st["generated"] = int(m.group(1))
    m = _RE_DEPTH.search(out)
    if m:
        st["depth"] = int(m.group(1))
    st["violated"] = []
    for m in re.finditer(r"Invariant (\S+) is violated", out):
        st["violated"].append(m.group(1))
    for m in re.finditer(r"Action property (\S+) is violated|Temporal properties were violated", out):
        st["violated"].append(m.group(1) or "temporal")
    st["error"] = None
    if "Error:" in out and not st["violated"]:
        i = out.index("Error:")
        st["error"] = out[i:i + 600]
    if "Deadlock reached" in out:
        st["violated"].append("Deadlock")
    st["finished"] = "Model checking completed" in out or "Finished in" in out
    return st


def coverage_counts(out):
    """per-action counts from `-coverage 1` output: {action: (distinct, total)}"""
    cov = {}
    for m in re.finditer(r"<(\w+) line \d+, col \d+ to line \d+, col \d+ of module (\w+)>: (\d+):(\d+)", out):
        cov[m.group(1)] = (int(m.group(3)), int(m.group(4)))
    return cov


def evaluate(extends, expr, tag="eval", timeout=120, base_cfg=None):
    """let TLC evaluate a constant expression of module `extends` and return it as Python data (via Json!ToJson).
    Used to export vectors / alphabets / layout tables FROM the specification to the harness."""
    import json
    os.makedirs(OUT, exist_ok=True)
    name = "Eval_%s_%d" % (tag, os.getpid())
    path = os.path.join(SPEC, name + ".tla")
    cfgp = os.path.join(SPEC, name + ".cfg")
    try:
        with open(path, "w") as fh:
            fh.write("---- MODULE %s ----\nEXTENDS %s, Json, SequencesExt\nVARIABLE evx\n"
                     "ASSUME PrintT(<<\"EVAL\", ToJson(%s)>>)\nEvInit == evx = 0\nEvNext == evx' = evx\n"
                     "EvSpec == EvInit /\\ [][EvNext]_evx\n====\n" % (name, extends, expr))
        with open(cfgp, "w") as fh:
            fh.write("SPECIFICATION EvSpec\n")
            if base_cfg:
                for line in open(os.path.join(SPEC, base_cfg)):
                    if not re.match(r"\s*(SPECIFICATION|INVARIANT|PROPERTY|CONSTRAINT|VIEW|CHECK_DEADLOCK)", line):
                        fh.write(line)
        r = run(name + ".tla", name + ".cfg", workers=1, timeout=timeout, tag=name)
    finally:
        for p in (path, cfgp):
            if os.path.exists(p):
                os.remove(p)
    m = re.search(r'<<"EVAL", (".*")>>', r["out"], re.S)
    if not m:
        raise TlcError("TLC evaluation of %s failed:\n%s" % (expr, r["out"][-1500:]))
    lit = m.group(1)
    s = json.loads(re.sub(r"\s*\n\s*", "", lit))
    return json.loads(s)
