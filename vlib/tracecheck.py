"""batch trace validation: traces recorded from the real code -> TLC trace specification.

A trace is a dict {cfg: {...}, ev: [...events...], expect: {...}, meta: {...}}.
Traces are sharded over several TLC processes (-workers 1 each); every trace
gets a total verdict: accepted, or the first failing clause and its position.
"""
import json
import os
import re
import shutil
import subprocess
import time
from concurrent.futures import ThreadPoolExecutor

from . import tlc

_RE_VERDICT = re.compile(r'<<\s*"VERDICT",\s*(\d+),\s*(\d+),\s*\{(.*?)\}\s*>>', re.S)


def _clean(o):
    """JSON for TLC: no nulls, no floats, ints < 2^31"""
    if isinstance(o, dict):
        return {k: _clean(v) for k, v in o.items() if v is not None and k not in ("i",)}
    if isinstance(o, (list, tuple)):
        return [_clean(v) for v in o]
    if isinstance(o, bool):
        return o
    if isinstance(o, int):
        if not (-2**31 < o < 2**31):
            raise ValueError("integer out of TLC range in trace: %r" % o)
        return o
    if isinstance(o, float):
        raise ValueError("float in trace")
    return o


def _run_shard(module, cfg, shard_file, tag, timeout, deque):
    r = tlc.run(module, cfg, workers=1, env={"TRACE_FILE": shard_file}, timeout=timeout, tag=tag, deque=deque)
    return r


def validate(module, cfg, traces, tag, shards=16, timeout=1800, deque=False, keep=False):
    """returns (verdicts, stats); verdicts[i] = {ok, at, why} for traces[i].
    raises tlc.TlcError on machinery failure."""
    if not traces:
        return [], {"generated": 0, "distinct": 0, "wall_s": 0.0, "tlc_runs": 0}
    outdir = os.path.join(tlc.OUT, "tr-" + tag)
    shutil.rmtree(outdir, ignore_errors=True)
    os.makedirs(outdir)
    # balance shards by event count
    order = sorted(range(len(traces)), key=lambda i: -len(traces[i]["ev"]))
    nsh = max(1, min(shards, len(traces)))
    bins = [[] for _ in range(nsh)]
    load = [0] * nsh
    for i in order:
        j = load.index(min(load))
        bins[j].append(i)
        load[j] += len(traces[i]["ev"]) + 20
    files = []
    for j, b in enumerate(bins):
        f = os.path.join(outdir, "shard%02d.json" % j)
        with open(f, "w") as fh:
            json.dump([_clean({k: v for k, v in traces[i].items() if k != "meta"}) for i in b], fh)
        files.append(f)
    t0 = time.time()
    with ThreadPoolExecutor(max_workers=nsh) as ex:
        futs = [ex.submit(_run_shard, module, cfg, files[j], "%s-%02d" % (tag, j), timeout, deque)
                for j in range(nsh)]
        results = [f.result() for f in futs]
    # a shard whose TLC process did not finish (killed under memory pressure, timed out on an overloaded machine) is run
    # again, alone, before it is called a machinery failure: a transient failure is never a verdict
    for j, r in enumerate(results):
        tries = 0
        while (r["error"] or not r["finished"]) and not r["violated"] and tries < 2:
            tries += 1
            r = _run_shard(module, cfg, files[j], "%s-%02d-r%d" % (tag, j, tries), timeout, deque)
            results[j] = r
    verdicts = [None] * len(traces)
    stats = {"generated": 0, "distinct": 0, "wall_s": time.time() - t0, "tlc_runs": nsh}
    for j, r in enumerate(results):
        stats["generated"] += r["generated"]
        stats["distinct"] += r["distinct"]
        if r["error"] or r["violated"] or not r["finished"]:
            raise tlc.TlcError("trace validation TLC failure in shard %d:\n%s" % (j, r["out"][-3000:]))
        seen = {}
        for m in _RE_VERDICT.finditer(r["out"]):
            tid, l, why = int(m.group(1)), int(m.group(2)), m.group(3)
            whys = re.findall(r'"((?:[^"\\]|\\.)*)"', why)
            seen.setdefault(tid, []).append((l, whys))
        for k, i in enumerate(bins[j]):
            vs = seen.get(k + 1)
            if not vs:
                raise tlc.TlcError("no verdict for trace %d of shard %d\n%s" % (k + 1, j, r["out"][-2000:]))
            good = [v for v in vs if not v[1]]
            if good:
                verdicts[i] = {"ok": True, "at": good[0][0], "why": []}
            else:
                l, whys = max(vs)
                verdicts[i] = {"ok": False, "at": l, "why": whys}
    if not keep:
        shutil.rmtree(outdir, ignore_errors=True)
    return verdicts, stats
